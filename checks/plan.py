"""Per-property plan: package, harness generators, tiers/bounds, wording for evidence."""

COMMON_ASSUME = [
    "Go strings are modelled as SMT-LIB strings (byte = code point < 256); solver: cvc5 1.0.3",
    "standard-library functions are contract-level models (DESIGN.md 3.4); every counterexample is replayed against the native build before it is reported",
    "map iteration order = insertion order (one representative order)",
]

EXPL = ("bounded symbolic execution of the real SSA of /repo's working tree by symgo (own engine on go/ssa): harness inputs are "
        "symbolic, every branch on them is a cvc5 feasibility query, every harness assertion an unsat query; all paths within the "
        "stated bounds explored; counterexample models are replayed natively with go test -overlay. ")

NOT_APPLICABLE = {
    "C15": "whole-program runs of the code generator (file I/O, jennifer rendering, go/format, the Go compiler as judge, process-wide map-iteration seeds, random ontologies) are not a bounded computation a solver encoding can reach; see DESIGN.md C15",
}

PLAN = {
    "C13": {
        "level_text": "For every one of the 63 types and EVERY possible name of the other type (one unconstrained symbolic string, so also names outside the vocabularies) the four predicate families and the IsExtending method agree with the closure computed independently from the vocabulary files; exhaustive path coverage of the generated predicate code, each verdict an unsat answer of cvc5. Also run on the regenerated tree when astool's output differs from the shipped code.",
        "level_note": "Trusted: go/ssa construction, symgo's SSA semantics (forked reference interpreter), cvc5's string theory, the 150-line oracle; other.GetTypeName() is modelled as returning the same string on every call",
        "pkg": "./streams",
        "gen": ["gen_c13.py"],
        "regen": True,
        "explanation": EXPL + "C13: for each of the 63 types the four package-level hierarchy predicates and the IsExtending method are run on a value "
                       "whose GetTypeName() is ONE symbolic string, and asserted equivalent to membership in the oracle's ancestor / descendant / "
                       "descendant-or-self / disjoint-closure set computed independently from astool/*.jsonld; the path on which no literal matched covers every other string.",
        "bounds": "none beyond the code's own literal lists (loops over literal slices are fully unrolled); the other type's name is an unconstrained string",
        "outside": "type names that are not valid byte strings < 256 code points are not distinguished",
        "assumptions": COMMON_ASSUME + ["oracle = transitive closure of subClassOf / disjointWith read from astool/*.jsonld by /verif/oracle/vocab_oracle.py"],
        "tiers": {"quick": {"params": {}, "timeout_s": 600}, "thorough": {"params": {}, "timeout_s": 1200}},
    },
    "C09": {
        "level_text": "For every request type of the default side-effect paths (13 inbox activity types incl. auto-accept/reject Follow and inbox forwarding, outbox posts, GET handler) with symbolic ids that may alias freely, and one injected failure at every Database/Transport/NewTransport/callback call position (thorough: two), a lock monitor inside the application-supplied Database asserts at every call: Unlock only of a held id, no Lock of an id already held (solver query over aliasing), every other Database call except NewID under some held lock, and no lock held when the handler returns.",
        "level_note": "Trusted: symgo SSA semantics, stdlib models (json as tree handles, url.Parse as uninterpreted functions), cvc5; application contract assumed: Lock/Unlock/NewID as documented, Get returns a value or an error; remote documents and stored values are drawn from the menus in harness/pub/zz_vf_scen.go",
        "pkg": "./pub",
        "explanation": EXPL + "C09: lock-discipline monitor in the harness Database over all paths of each request type; ids are symbolic IRIs (aliasing decided by the solver), fault positions are decisions.",
        "bounds": "quick: 1 object per activity (IRI or embedded), 1 'to' recipient, 1 actor, at most 1 injected fault per request, recursion limits 1; thorough: 2 objects, at most 2 faults",
        "outside": "more than 2 objects/targets; recursion limits > 1; application callbacks that themselves call the Database",
        "assumptions": COMMON_ASSUME + ["NewID returns fresh pairwise distinct ids", "Owns/Exists/InboxContains are functions of the id (uninterpreted)", "IRIs are absolute https IRIs in URL-normal form"],
        "tiers": {"quick": {"params": {"faults": 1, "nobj": 1}, "timeout_s": 1500}, "thorough": {"params": {"faults": 2, "nobj": 2}, "timeout_s": 6000}},
    },
    "C07": {
        "level_text": "For each of the five entry points, all protocol configurations, authentication outcomes {ok, denied, error} and block outcomes {no, yes, error}: (a) with the HTTP method and the Content-Type/Accept header as unconstrained symbolic strings, 'not an ActivityPub request' (reference predicate over the nine documented media types, decided by cvc5's str.contains) implies not handled, nil error and an empty call log; a disabled protocol implies 405 with no application call at all; (b) for a valid request of every handled activity type, bare object, unknown type and garbled body, with at most one injected fault, every Database/Transport call and side-effect callback in the ghost log carries the 'authenticated' (and for inbox POSTs 'block check passed') flag.",
        "level_note": "Trusted: symgo, stdlib models, cvc5; the request-body hook is not counted as a side-effect callback (it is documented to run between authentication and authorisation); the ActivityStreams handler has no authentication step so only the classification clause applies to it",
        "pkg": "./pub",
        "explanation": EXPL + "C07: ghost flags set by the application's authentication / block callbacks are checked on every logged call; request classification uses symbolic method and header strings.",
        "bounds": "1 object per activity, 1 recipient, at most 1 fault (thorough 2), recursion limits 1; method/header arbitrary strings in the Classify harnesses",
        "outside": "header keys other than Content-Type/Accept; multiple header values",
        "assumptions": COMMON_ASSUME + ["a denied authentication is answered by the application itself (401)"],
        "tiers": {"quick": {"params": {"faults": 1}, "timeout_s": 2400}, "thorough": {"params": {"faults": 2}, "timeout_s": 9000}},
    },
    "C10": {
        "level_text": "On every path of every request scenario of C07 plus id-kind variants {absent, null, empty, number, object, relative}, missing object/target variants and one injected fault at every fallible call: exactly one of {not handled & nothing written; handled, error, nothing written by the library; handled, nil error, exactly one WriteHeader}, and the status equals the documented table (405/400/403/200/410/201 + Location == new activity id).",
        "level_note": "Trusted: symgo, stdlib models, cvc5; ResponseWriter.Write always accepts all bytes; a denied authentication is answered by the application (its 401 is not the library's status)",
        "pkg": "./pub",
        "explanation": EXPL + "C10: the harness ResponseWriter counts WriteHeader/Write/Header use; the outcome trichotomy and the status table are asserted on every path.",
        "bounds": "as C07; id kinds from a 7-entry menu (number symbolic)",
        "outside": "failures of ResponseWriter.Write itself",
        "assumptions": COMMON_ASSUME,
        "tiers": {"quick": {"params": {"faults": 1}, "timeout_s": 2400}, "thorough": {"params": {"faults": 2}, "timeout_s": 9000}},
    },
    "C06": {
        "level_text": "Inbox POSTs through the whole stack with symbolic ids whose hosts are free strings: Update/Delete with 1..2 objects (IRI or embedded) mutate the store only if every object host equals the activity host, and a cross-origin request is refused without any store change; Accept (1..2 actors, the Follow embedded or by IRI, the stored value under the Follow id of any kind incl. absent, a Follow of another actor, a Follow naming 1..2 objects) updates following only under the documented three conditions; Undo (1..2 actors, undone activity by IRI or embedded with 1..2 actors) is accepted only if its actors cover the undone activity's; Blocked is called exactly once, before any side effect, with the id of every actor whether written as IRI or embedded object.",
        "level_note": "Trusted: symgo, stdlib models (url host = uninterpreted function of the IRI string), cvc5; hosts 'differing only in port/case/sub-domain' are simply unequal strings",
        "pkg": "./pub",
        "explanation": EXPL + "C06: authority predicates recomputed by the harness over the same symbolic world and compared with what the ghost log shows was written.",
        "bounds": "1..2 objects, 1..2 actors, 1..2 objects on the stored Follow, recursion limits 1, no injected faults",
        "outside": "3 or more objects/actors",
        "assumptions": COMMON_ASSUME,
        "covers_by_harness": {"VfC06_Origin_.*": ["applied", "cross-origin"], "VfC06_Accept": ["following-updated", "refused-or-ignored"], "VfC06_Undo": ["accepted", "not-covered"]},
        "tiers": {"quick": {"params": {"nobj": 2, "nactors": 2}, "timeout_s": 1200}, "thorough": {"params": {"nobj": 3, "nactors": 3}, "timeout_s": 6000}},
    },
    "C04": {
        "level_text": "For Create/Update/Delete, Like/Announce, Add/Remove and Follow received at an inbox (1..2 objects as IRI or embedded, symbolic ownership per id, existing likes/shares absent / Collection / OrderedCollection with 0..1 entries, targets ordered or unordered with 0..2 entries, OnFollow in all three modes, callback configuration none / wrapped / overriding 'other'), the Database writes in the ghost log equal the reference effect list: exactly the named objects for Create/Update/Delete; the activity id first in likes/shares of exactly the owned objects; exact list contents for owned Add/Remove targets; followers = following actors ++ previous followers and one delivered Accept/Reject with a fresh id, the owner as actor, the Follow as object, addressed to the following actors; no write to an id with Owns=false; with 'other' no default effect; wrapped callback after the last default write. (The Accept guard is C06's.)",
        "level_note": "Trusted: symgo, stdlib models, cvc5; stored values come from the default-store menu of harness/pub/zz_vf_scen.go; owned Like/Announce objects are Notes, owned Add/Remove targets are collections",
        "pkg": "./pub",
        "explanation": EXPL + "C04: per-type reference effect lists computed in the harness and compared with the ghost log of Database/Transport calls.",
        "bounds": "1..2 objects, 1..2 targets, pre-states of 0..2 entries, no injected faults in quick (thorough: 1)",
        "outside": "3 or more objects; Accept/Reject/Undo/Block (no default store effect beyond C06's Accept)",
        "assumptions": COMMON_ASSUME + ["every follower of the auto-reply has an application-stored inbox (delivery resolution is C02's subject)"],
        "covers_by_harness": {"VfC04_(Create|Update|Delete|Like|Announce|Add|Remove)": ["applied", "other", "wrapped", "no-callback"], "VfC04_Follow": ["auto-reply", "nothing", "other"]},
        "tiers": {"quick": {"params": {"nobj": 2, "ntargets": 2, "faults": 0}, "timeout_s": 1500}, "thorough": {"params": {"nobj": 2, "ntargets": 2, "faults": 1}, "timeout_s": 6000}},
    },
    "C02": {
        "level_text": "FederatingActor.Send of an activity whose 1..n recipients are spread by symbolic choice over to/bto/cc/bcc/audience, each an IRI, an embedded actor or the Public collection (two spellings), against a remote web that is an uninterpreted function of the IRI (actor with inbox, Collection/OrderedCollection and their pages with 0..k items that are again arbitrary IRIs - so shared, duplicated and cyclic collections arise by aliasing -, unknown type, garbled, unreachable), any subset of actors with an application-stored inbox, depth limit 1..d: the Dereference sequence and the recipient list of the single BatchDeliver equal those of a 25-line reference resolver over the same world; no duplicates, sender's inbox absent, Public never dereferenced, unreachable/garbled/unknown recipients skipped without failing.",
        "level_note": "Trusted: symgo, stdlib models, cvc5, the reference resolver in harness/pub/zz_vf_c02.go; an actor's stored inbox equals the inbox of its own document; documents of a known non-actor type (a Note named as recipient) and actor documents without inbox are kept out of the menu here (C11 covers the latter)",
        "pkg": "./pub",
        "explanation": EXPL + "C02: differential harness - implementation vs reference resolver on a symbolic federation graph given by uninterpreted functions of the IRI.",
        "bounds": "three slices: Addressing (<=2 [thorough 3] recipients, all with stored inbox, IRI / embedded / Public in two spellings, rotated over the five properties), Resolve (1 recipient, full web incl. pages, <=1 [2] items per collection, depth limit 1..2 [3]), Mixed (2 IRI recipients, stored or not, web without pages, <=1 item, depth 1..2)",
        "outside": "more recipients/items/depth than the bounds; the bare word 'Public' as a recipient (not an IRI: the decoder keeps it as a non-IRI value)",
        "assumptions": COMMON_ASSUME + ["Dereference of the same IRI returns the same document within one delivery"],
        "tiers": {"quick": {"params": {"naddr": 2, "items": 1, "depth": 2, "pages": 1}, "harness": "VfC02_(Addressing|Resolve)", "timeout_s": 900, "bounds": "slices Addressing (<=2 recipients) and Resolve (1 recipient, <=1 item, depth 1..2, pages included); the Mixed slice runs in the thorough tier only"},
                  "thorough": {"params": {"naddr": 3, "items": 2, "depth": 2, "pages": 1}, "timeout_s": 10000}},
    },
    "C05": {
        "level_text": "Client POST / Send of (a) a bare Note, (b) a Create with 1..2 embedded Notes, 1..2 actors, optional attributedTo, recipients on activity and object drawn from a menu of address patterns whose same-property entries may alias (solver-decided overlap), (c) Like/Follow/Update/Listen for the ordering clauses; pre-state outbox arbitrary (empty or two symbolic ids = one inductive step for 'newest first'); Social/Federating configurations: the JSON snapshot taken at Database.Create shows the wrapping Create (actor = owner, five addressing properties and published copied), fresh ids on activity and every Create object, attribution and recipient unions as set equalities, each object stored once, the activity stored once, SetOutbox = new id followed by the previous entries, every persistence call before any BatchDeliver, 201 + Location = id; with one injected fault nothing is delivered after a failed persistence step.",
        "level_note": "Trusted: symgo, stdlib models, cvc5; ids of the request pairwise distinct except same-property activity/object recipients and attributedTo vs actors; every recipient has an application-stored inbox (resolution is C02's subject); histories are covered by the inductive step on the outbox page, not run",
        "pkg": "./pub",
        "explanation": EXPL + "C05: snapshots of what reaches Database.Create/SetOutbox and Transport.BatchDeliver compared with reference unions and orderings.",
        "bounds": "quick: 1 object, 4 address patterns, no faults; thorough: 1..2 objects, 7 patterns, 1 fault",
        "outside": "3+ objects; recipients that alias across different properties; sequences of posts (inductive step instead)",
        "assumptions": COMMON_ASSUME + ["NewID returns ids different from every id in the request"],
        "covers_by_harness": {"VfC05_Create": ["normalised", "accepted"], "VfC05_BareObject": ["wrapped", "accepted"]},
        "tiers": {"quick": {"params": {"nobj": 1, "patterns": 4, "faults": 0}, "timeout_s": 1200}, "thorough": {"params": {"nobj": 2, "patterns": 7, "faults": 1}, "timeout_s": 10000}},
    },
    "C03": {
        "level_text": "For client POSTs and Send of bare objects, Creates (1..2 objects) and other activities under all protocol configurations, the automatic Accept/Reject of a Follow, with bto/bcc placed by address pattern on the activity and/or the embedded object (as IRIs and as embedded actors): the JSON tree behind every payload handle given to BatchDeliver/Deliver has no bto/bcc on the root or on any value under 'object', and the inbox of every hidden recipient of the activity is among the recipients; for the GET handler: stored values with an 'object' chain of depth 1..3 through types from {Create, Offer, Note, Relationship, Tombstone, Announce} with bto/bcc at a chosen depth are served without bto/bcc at any depth.",
        "level_note": "Trusted: as C05; json.Marshal/Unmarshal are tree handles (byte-level JSON outside the claim); hidden recipients placed in unknown members of Link-family types are outside (the outbox rejects them under the Social protocol)",
        "pkg": "./pub",
        "explanation": EXPL + "C03: assertion on the JSON snapshot behind each byte handle that leaves through the Transport or the ResponseWriter.",
        "bounds": "as C05; handler: object depth <= 3",
        "outside": "object nesting deeper than 3; hidden recipients of a non-Create activity's embedded object are required to be stripped but not required to be delivered to",
        "assumptions": COMMON_ASSUME,
        "covers_by_harness": {"VfC03_(Create|BareObject|Other_.*|AutoReply)": ["payload"]},
        "tiers": {"quick": {"params": {"nobj": 1, "patterns": 4, "hdepth": 2}, "timeout_s": 1200}, "thorough": {"params": {"nobj": 2, "patterns": 7, "hdepth": 3}, "timeout_s": 10000}},
    },
    "C16": {
        "level_text": "Client POSTs through the whole outbox stack with the default Social callbacks: Update of a stored Note whose four sample members (three known properties and one unknown member) are each stored-or-absent and supplied-absent/new/null in every combination - the JSON snapshot at Database.Update equals the reference merge member by member; Delete of a stored Note/Article/Image/Person with or without published/updated - Tombstone with same id, former type, original times, the clock's instant as deleted, nothing else kept; Add/Remove with 1..2 objects and 1..2 targets, symbolic ownership, ordered/unordered targets with 0..2 previous entries that may alias the object ids - exact list effect on owned targets only; Like - object ids at the front of liked; Block - stored, listed in the outbox, no Transport call at all; each type with object/target absent or an empty array - 400 and no write.",
        "level_note": "Trusted: symgo, stdlib models (time.Format as an uninterpreted function of instant, zone and layout), cvc5; stored values are values as ToType produced them from a document with @context",
        "pkg": "./pub",
        "explanation": EXPL + "C16: reference effects computed in the harness and compared with JSON snapshots of the values reaching the Database.",
        "bounds": "member values are fixed distinct literals (the member SET is what varies: 6^4 combinations, all explored); 1..2 objects/targets; previous collection entries 0..2",
        "outside": "nested (non top-level) members; more than 2 objects/targets",
        "assumptions": COMMON_ASSUME,
        "covers_by_harness": {"VfC16_Update": ["applied"]},
        "tiers": {"quick": {"params": {"nobj": 2}, "timeout_s": 1200}, "thorough": {"params": {"nobj": 3}, "timeout_s": 6000}},
    },
    "C17": {
        "level_text": "sideEffectActor.InboxForwarding on a received Create with symbolic 'seen before' (Exists as an uninterpreted predicate of the id), 1..2 to/cc/audience entries each owned or not and stored as Note / Collection / OrderedCollection / Follow / Person / absent, a value chain through tag and object given as IRI or embedded Note with inReplyTo, remote reply documents as an uninterpreted function of the IRI (Note with parent, Note without, unreachable, unknown type), ownership an uninterpreted predicate, depth limit 1..d, filter passing all / none / the first: BatchDeliver happens exactly when not seen, some owned collection is addressed and the reference reachability predicate holds; the filter is asked once about exactly the owned collections in order; recipients are the members of the filtered collections; the payload tree equals the received activity (also when it still carries bcc/bto); the activity is recorded exactly once iff not seen (one inductive step for repeated deliveries).",
        "level_note": "Trusted: symgo, stdlib models, cvc5, the reference reachability function in harness/pub/zz_vf_c17.go; ids written in the request are pairwise distinct (aliasing with locks is C09's subject); two slices (conditions / collections+filter) instead of their product",
        "pkg": "./pub",
        "explanation": EXPL + "C17: reference predicate for the three forwarding conditions evaluated over the same uninterpreted world and compared with the ghost log.",
        "bounds": "quick: depth limit 1..2, chain depth <= 2 plus fetched parents, <=1 member per collection, <=2 addressed entries; thorough: depth 1..3, <=2 members",
        "outside": "deeper chains; more than 2 addressed entries; target and inReplyTo on the activity itself",
        "assumptions": COMMON_ASSUME,
        "covers_by_harness": {"VfC17_Conditions": ["forwarded", "not-forwarded", "seen-before"], "VfC17_Collections": ["forwarded", "not-forwarded"]},
        "tiers": {"quick": {"params": {"depth": 2, "naddr": 2, "items": 1}, "timeout_s": 1200}, "thorough": {"params": {"depth": 3, "naddr": 2, "items": 2}, "timeout_s": 6000}},
    },
}
