#!/usr/bin/env python3
"""Regenerate /verif/MANIFEST.json from checks/plan.py (claimed) + NOT_APPLICABLE below."""
import json, os, sys
VERIF = os.path.dirname(os.path.dirname(os.path.abspath(__file__)))
sys.path.insert(0, os.path.join(VERIF, "checks"))
from plan import PLAN, NOT_APPLICABLE
props = [json.loads(l)["id"] for l in open(os.path.join(VERIF, "properties.jsonl"))]
checks = []
for p in props:
    if p not in PLAN or PLAN[p].get("unregistered"):
        continue
    c = PLAN[p]
    checks.append({
        "property_id": p,
        "quick_cmd": "python3 checks/run.py %s quick" % p,
        "thorough_cmd": "python3 checks/run.py %s thorough" % p,
        "evidence_file": "/verif/evidence/%s.json" % p,
        "replay_cmd_template": "sh {path}/run.sh",
        "engine": "symgo",
        "level_claimed": {"category": "other", "text": c["level_text"], "design_ref": "DESIGN.md §5 " + p},
        "level_note": c["level_note"],
        "technique": c.get("technique", "bounded symbolic execution of the Go SSA (own engine on go/ssa) with cvc5 deciding every branch and assertion; counterexamples replayed natively"),
    })
na = [{"property_id": p, "reason": NOT_APPLICABLE.get(p, "check not built yet (work in progress)")} for p in props if p not in [c["property_id"] for c in checks]]
m = {
    "version": 1,
    "setup_cmd": "cd /verif/engine && GOFLAGS=-mod=mod GOPROXY=off GOSUMDB=off GOTOOLCHAIN=local go build -o symgo ./cmd/symgo",
    "hooks": {"guard": "verif", "enable": "no source changes in /repo: harness files (build tag verif) are injected by go/packages Overlay for the engine and by `go test -tags verif -overlay` for native replays",
              "baseline_off_cmd": "python3 /verif/tools/baseline_check.py /repo", "source_commits": [], "add_only": True},
    "engines": [{"name": "symgo", "path": "/verif/engine", "serves_properties": [c["property_id"] for c in checks],
                 "kind_free_text": "symbolic executor for Go SSA (fork of x/tools go/ssa/interp + symbolic scalars/strings, solver-decided branching, stdlib contract models), cvc5 1.0.3 back end, native replay of counterexamples"}],
    "checks": checks,
    "notes": "All checks: exit 0 = held within stated bounds; exit 1 + VIOLATION line = counterexample confirmed by native replay; exit 2 + INCONCLUSIVE lines = could not decide (never reported as success). See DESIGN.md.",
    "not_applicable": na,
}
json.dump(m, open(os.path.join(VERIF, "MANIFEST.json"), "w"), indent=1)
print("claimed:", [c["property_id"] for c in checks])
