#!/usr/bin/env python3
"""Generate the C18 harnesses (package streams) from the CURRENT vocab interfaces of the tree under analysis:
one harness per non-functional property (operation sequences vs a plain Go slice) and one per functional property."""
import glob, os, re, sys


def sample(gotype, tag):
    """Go expression producing a sample value of the parameter type, plus how to identify it later."""
    t = gotype.strip()
    if re.fullmatch(r"[A-Z]\w+", t):
        t = "vocab." + t  # interface files live in package vocab
    if t == "*url.URL":
        return 'vfURL("%s")' % tag, "url"
    if t == "string":
        return '"text-%s"' % tag, "lit"
    if t == "bool":
        return "true", "lit"
    if t == "float64":
        return "1.5", "lit"
    if t == "int":
        return "7", "lit"
    if t == "time.Time":
        return "time.Unix(1000000, 0).UTC()", "lit"
    if t == "time.Duration":
        return "2 * time.Hour", "lit"
    if t == "map[string]string":
        return 'map[string]string{"en": "text-%s"}' % tag, "lit"
    if t.startswith("vocab."):
        return "vfWithID(New%s(), vfURL(\"%s.id\")).(%s)" % (t[len("vocab."):], tag, t), "type"
    return None, None


def parse(path):
    src = open(path).read()
    src_nc = re.sub(r"//[^\n]*", "", src)
    m_it = re.search(r"type (\w+)PropertyIterator interface \{(.*?)\n\}", src_nc, re.S)
    m_p = re.search(r"type (\w+)Property interface \{(.*?)\n\}", src_nc, re.S)
    if not m_p:
        return None
    name = m_p.group(1)
    body = m_p.group(2)
    if m_it:
        kinds = re.findall(r"\n\tAppend(\w+)\(v ([^)]+)\)", body)
        kinds = [(k, t) for k, t in kinds if k not in ("IRI", "Type")]
        return {"name": name, "functional": False, "kinds": kinds, "hasType": "AppendType(" in body, "body": body, "itbody": m_it.group(2)}
    sets = re.findall(r"\n\tSet(\w*)\(v ([^)]+)\)", body)
    sets = [(k, t) for k, t in sets if k != "IRI"]
    return {"name": name, "functional": True, "kinds": sets, "hasIRI": "SetIRI(" in body, "hasType": "SetType(" in body}


def pick(kinds, n=2):
    """pick up to n kinds we can build values for: the first and the last usable one"""
    # an xsd:anyURI kind IS the property's IRI form (IsIRI and IsXMLSchemaAnyURI coincide by design): not a separate kind
    usable = [(k, t) for k, t in kinds if sample(t, "x")[0] is not None and t.strip() != "*url.URL"]
    if len(usable) <= n:
        return usable
    return [usable[0], usable[-1]]


def gen_nonfunc(p):
    name = p["name"]
    ks = pick(p["kinds"])
    K = 1 + len(ks)
    o = []
    o.append("func VfC18_%s() {" % name)
    o.append("\tp := New%sProperty()" % name)
    o.append("\tvar model []vfElem")
    o.append("\tput := func(mode, idx, k int) vfElem {")
    o.append("\t\tswitch k {")
    o.append("\t\tcase 0:")
    o.append('\t\t\tu := vfURL("v")')
    o.append("\t\t\tswitch mode {")
    o.append("\t\t\tcase 0:\n\t\t\t\tp.AppendIRI(u)\n\t\t\tcase 1:\n\t\t\t\tp.PrependIRI(u)\n\t\t\tcase 2:\n\t\t\t\tp.InsertIRI(idx, u)\n\t\t\tcase 3:\n\t\t\t\tp.SetIRI(idx, u)\n\t\t\t}")
    o.append("\t\t\treturn vfElem{0, u.String()}")
    # case numbering: 0 IRI, 1 first sampled kind, 2 the generic vocab.Type mutators (same kind of value), then the second sampled kind
    tk = [(k, t) for (k, t) in ks[:1] if sample(t, "x")[1] == "type"]
    order = []
    if ks:
        order.append(("kind", ks[0]))
    if p["hasType"] and tk:
        order.append(("generic", tk[0]))
    if len(ks) > 1:
        order.append(("kind", ks[1]))
    kindcase = {}
    for c, (what, (k, t)) in enumerate(order, start=1):
        expr, how = sample(t, "k%d" % c)
        o.append("\t\tcase %d:" % c)
        o.append("\t\t\tv := %s" % expr)
        if what == "generic":
            o.append("\t\t\tvar err error")
            o.append("\t\t\tswitch mode {")
            o.append("\t\t\tcase 0:\n\t\t\t\terr = p.AppendType(v)\n\t\t\tcase 1:\n\t\t\t\terr = p.PrependType(v)\n\t\t\tcase 2:\n\t\t\t\terr = p.InsertType(idx, v)\n\t\t\tcase 3:\n\t\t\t\terr = p.SetType(idx, v)\n\t\t\t}")
            o.append("\t\t\tvfAssert(err == nil, \"generic-type-mutator-rejected-an-admissible-value\")")
            o.append("\t\t\treturn vfElem{%d, vfTypeID(v)}" % kindcase[k])
            continue
        kindcase[k] = c
        setname = "Set%s" % k if ("\tSet%s(idx int" % k) in p["body"] else "Set"
        o.append("\t\t\tswitch mode {")
        o.append("\t\t\tcase 0:\n\t\t\t\tp.Append%s(v)\n\t\t\tcase 1:\n\t\t\t\tp.Prepend%s(v)\n\t\t\tcase 2:\n\t\t\t\tp.Insert%s(idx, v)\n\t\t\tcase 3:\n\t\t\t\tp.%s(idx, v)\n\t\t\t}" % (k, k, k, setname))
        if how == "type":
            o.append("\t\t\treturn vfElem{%d, vfTypeID(v)}" % c)
        elif how == "url":
            o.append("\t\t\treturn vfElem{%d, v.String()}" % c)
        else:
            o.append("\t\t\treturn vfElem{%d, \"\"}" % c)
    K = 1 + len(order)
    o.append("\t\t}")
    o.append("\t\treturn vfElem{}")
    o.append("\t}")
    o.append("\tL := vfParam(\"len\", 2)")
    o.append("\tK := 1 + vfParam(\"kinds\", %d)" % (K - 1))
    o.append("\tif K > %d {\n\t\tK = %d\n\t}" % (K, K))

    o.append("\tfor step := 0; step < L; step++ {")
    o.append("\t\tn := len(model)")
    o.append("\t\tswitch vfChoose(\"op\", 6) {")
    o.append("\t\tcase 0:\n\t\t\tmodel = append(model, put(0, 0, vfChoose(\"kind\", K)))")
    o.append("\t\tcase 1:\n\t\t\te := put(1, 0, vfChoose(\"kind\", K))\n\t\t\tmodel = append([]vfElem{e}, model...)")
    o.append("\t\tcase 2:\n\t\t\tidx := vfIndex(\"idx\", n+1)\n\t\t\te := put(2, idx, vfChoose(\"kind\", K))\n\t\t\tmodel = append(model[:idx:idx], append([]vfElem{e}, model[idx:]...)...)")
    o.append("\t\tcase 3:\n\t\t\tvfAssume(n > 0, \"set needs an element\")\n\t\t\tidx := vfIndex(\"idx\", n)\n\t\t\tmodel[idx] = put(3, idx, vfChoose(\"kind\", K))")
    o.append("\t\tcase 4:\n\t\t\tvfAssume(n > 0, \"remove needs an element\")\n\t\t\tidx := vfIndex(\"idx\", n)\n\t\t\tp.Remove(idx)\n\t\t\tmodel = append(model[:idx:idx], model[idx+1:]...)")
    o.append("\t\tcase 5:\n\t\t\tvfAssume(n > 1, \"swap needs two elements\")\n\t\t\ti, j := vfIndex(\"i\", n), vfIndex(\"j\", n)\n\t\t\tp.Swap(i, j)\n\t\t\tmodel[i], model[j] = model[j], model[i]")
    o.append("\t\t}")
    o.append("\t}")
    # checks
    o.append("\tchk := func(it vocab.%sPropertyIterator, e vfElem, where string) {" % name)
    o.append("\t\tif it == nil {\n\t\t\tvfAssert(false, where+\":nil-element\")\n\t\t\treturn\n\t\t}")
    o.append("\t\tvfAssert(it.IsIRI() == (e.kind == 0), where+\":is-iri\")")
    o.append("\t\tif e.kind == 0 {\n\t\t\tvfAssert(it.GetIRI() != nil && it.GetIRI().String() == e.key, where+\":iri-value\")\n\t\t}")
    for (k, t) in ks:
        j = kindcase[k]
        expr, how = sample(t, "x")
        o.append("\t\tvfAssert(it.Is%s() == (e.kind == %d), where+\":is-%s\")" % (k, j, k))
        getname = "Get%s" % k if ("\tGet%s()" % k) in p["itbody"] else "Get"
        if how == "type":
            o.append("\t\tif e.kind == %d {\n\t\t\tvfAssert(it.%s() != nil && vfTypeID(it.%s()) == e.key, where+\":value-%s\")\n\t\t}" % (j, getname, getname, k))
        elif how == "url":
            o.append("\t\tif e.kind == %d {\n\t\t\tvfAssert(it.%s() != nil && it.%s().String() == e.key, where+\":value-%s\")\n\t\t}" % (j, getname, getname, k))
    o.append("\t}")
    o.append("\tn := len(model)")
    o.append("\tvfAssert(p.Len() == n, \"len\")")
    o.append("\tvfAssert(p.Empty() == (n == 0), \"empty\")")
    o.append("\tif p.Len() == n {")
    o.append("\t\tfor i := 0; i < n; i++ {\n\t\t\tchk(p.At(i), model[i], \"at\")\n\t\t}")
    o.append("\t\tc := 0\n\t\tfor it := p.Begin(); it != p.End(); it = it.Next() {\n\t\t\tif c < n {\n\t\t\t\tchk(it, model[c], \"forward\")\n\t\t\t}\n\t\t\tc++\n\t\t\tif c > n+2 {\n\t\t\t\tbreak\n\t\t\t}\n\t\t}\n\t\tvfAssert(c == n, \"forward-iteration-visits-every-element-once\")")
    o.append("\t\tif n > 0 {\n\t\t\tc := n - 1\n\t\t\tfor it := p.At(n - 1); it != nil; it = it.Prev() {\n\t\t\t\tif c >= 0 {\n\t\t\t\t\tchk(it, model[c], \"backward\")\n\t\t\t\t}\n\t\t\t\tc--\n\t\t\t\tif c < -3 {\n\t\t\t\t\tbreak\n\t\t\t\t}\n\t\t\t}\n\t\t\tvfAssert(c == -1, \"backward-iteration-visits-every-element-once\")\n\t\t}")
    o.append("\t\tser, err := p.Serialize()\n\t\tvfAssert(err == nil, \"serialize-error\")")
    o.append("\t\tvar list []interface{}\n\t\tswitch x := ser.(type) {\n\t\tcase []interface{}:\n\t\t\tlist = x\n\t\tdefault:\n\t\t\tif n == 1 {\n\t\t\t\tlist = []interface{}{x}\n\t\t\t}\n\t\t}")
    o.append("\t\tvfAssert(len(list) == n, \"serialized-length\")")
    o.append("\t\tif len(list) == n {\n\t\t\tfor i, e := range model {\n\t\t\t\tif e.kind == 0 {\n\t\t\t\t\tvfAssert(list[i] == e.key, \"serialized-iri\")\n\t\t\t\t} else if e.key != \"\" {\n\t\t\t\t\tvfAssert(vfSerID(list[i]) == e.key, \"serialized-value\")\n\t\t\t\t}\n\t\t\t}\n\t\t}")
    o.append("\t}")
    o.append("\tvfCover(\"end\")")
    o.append("}")
    o.append("")
    return "\n".join(o)


def gen_func(p):
    name = p["name"]
    ks = pick(p["kinds"])
    if not p.get("hasIRI"):
        return ""
    K = 2 + len(ks)  # 0 IRI, 1..len kinds, last = Clear
    o = []
    o.append("func VfC18_%s() {" % name)
    o.append("\tp := New%sProperty()" % name)
    o.append("\tcur := vfElem{-1, \"\"}")
    o.append("\tL := vfParam(\"flen\", 3)")
    o.append("\tfor step := 0; step < L; step++ {")
    o.append("\t\tswitch vfChoose(\"op\", %d) {" % K)
    o.append("\t\tcase 0:\n\t\t\tu := vfURL(\"v\")\n\t\t\tp.SetIRI(u)\n\t\t\tcur = vfElem{0, u.String()}")
    for j, (k, t) in enumerate(ks, start=1):
        expr, how = sample(t, "k%d" % j)
        o.append("\t\tcase %d:\n\t\t\tv := %s\n\t\t\tp.Set%s(v)" % (j, expr, k))
        if how == "type":
            o.append("\t\t\tcur = vfElem{%d, vfTypeID(v)}" % j)
        elif how == "url":
            o.append("\t\t\tcur = vfElem{%d, v.String()}" % j)
        else:
            o.append("\t\t\tcur = vfElem{%d, \"\"}" % j)
    o.append("\t\tcase %d:\n\t\t\tp.Clear()\n\t\t\tcur = vfElem{-1, \"\"}" % (K - 1))
    o.append("\t\t}")
    o.append("\t}")
    o.append("\tvfAssert(p.IsIRI() == (cur.kind == 0), \"is-iri\")")
    o.append("\tvfAssert(p.HasAny() == (cur.kind >= 0), \"has-any\")")
    o.append("\tif cur.kind == 0 {\n\t\tvfAssert(p.GetIRI() != nil && p.GetIRI().String() == cur.key, \"iri-value\")\n\t}")
    for j, (k, t) in enumerate(ks, start=1):
        expr, how = sample(t, "x")
        isname = "Is%s" % k if k else None
        if k == "":
            # single-kind property: Is<Kind>() is named after the kind; find it generically via HasAny/IsIRI
            o.append("\tvfAssert((p.HasAny() && !p.IsIRI()) == (cur.kind == %d), \"is-value\")" % j)
        else:
            o.append("\tvfAssert(p.Is%s() == (cur.kind == %d), \"is-%s\")" % (k, j, k))
            if how == "type":
                o.append("\tif cur.kind == %d {\n\t\tvfAssert(p.Get%s() != nil && vfTypeID(p.Get%s()) == cur.key, \"value-%s\")\n\t}" % (j, k, k, k))
    o.append("\tser, err := p.Serialize()\n\tvfAssert(err == nil, \"serialize-error\")")
    o.append("\tif cur.kind == 0 {\n\t\tvfAssert(ser == cur.key, \"serialized-iri\")\n\t}")
    o.append("\tif cur.kind > 0 && cur.key != \"\" {\n\t\tvfAssert(vfSerID(ser) == cur.key, \"serialized-value\")\n\t}")
    o.append("\tvfCover(\"end\")")
    o.append("}")
    o.append("")
    return "\n".join(o)


def main(astool_dir, outdir, repo="/repo", *rest):
    files = sorted(glob.glob(os.path.join(repo, "streams", "vocab", "gen_property_*_interface.go")))
    out = ['//go:build verif', '', 'package streams', '',
           '// Code generated by /verif/checks/gen_c18.py from the vocab interfaces of the analysed tree. DO NOT EDIT.', '',
           'import (', '\t"time"', '', '\t"github.com/go-fed/activity/streams/vocab"', ')', '', 'var _ = time.Hour', 'var _ vocab.Type', '']
    n = 0
    for f in files:
        p = parse(f)
        if not p or p["name"].startswith("JSONLD"):
            continue
        code = gen_func(p) if p["functional"] else gen_nonfunc(p)
        if code:
            out.append(code)
            n += 1
    os.makedirs(outdir, exist_ok=True)
    open(os.path.join(outdir, "zz_vf_c18_gen.go"), "w").write("\n".join(out))


if __name__ == "__main__":
    main(*sys.argv[1:])
