#!/usr/bin/env python3
"""checks/run.py <property-id> <quick|thorough>

Drives one property check: assemble the harness overlay, run symgo (bounded symbolic execution of
/repo's current source, assertions decided by cvc5), replay every counterexample natively with
`go test -overlay`, match known findings, write /verif/evidence/<id>.json.

exit 0: property held on everything explored (KNOWN-FINDING lines possible)
exit 1: "VIOLATION property=<id> replay=<path>" printed (confirmed natively)
exit 2: inconclusive (solver unknown, unsupported construct, unwinding bound, unconfirmed counterexample, vacuous harness)
"""
import glob, hashlib, json, os, re, shutil, subprocess, sys, tempfile, time

VERIF = os.path.dirname(os.path.dirname(os.path.abspath(__file__)))
REPO = os.environ.get("VERIF_REPO", "/repo")
SYMGO = os.path.join(VERIF, "engine", "symgo")
# trial runs against a scratch tree (seeded changes) must not overwrite the registered evidence
OUT = VERIF if REPO == "/repo" else os.path.join(os.environ.get("VERIF_SCRATCH", "/var/tmp"), "vf-trial-out")
GOENV = dict(os.environ, GOFLAGS="-mod=mod", GOPROXY="off", GOSUMDB="off", GOTOOLCHAIN="local")
sys.path.insert(0, os.path.join(VERIF, "checks"))
from plan import PLAN  # noqa: E402


def log(*a):
    print(*a, flush=True)


def ensure_engine():
    src_m = 0
    for root, _, files in os.walk(os.path.join(VERIF, "engine")):
        for f in files:
            if f.endswith(".go") or f in ("go.mod", "go.sum"):
                src_m = max(src_m, os.path.getmtime(os.path.join(root, f)))
    if not os.path.exists(SYMGO) or os.path.getmtime(SYMGO) < src_m:
        subprocess.run(["go", "build", "-o", SYMGO, "./cmd/symgo"], cwd=os.path.join(VERIF, "engine"), env=GOENV, check=True)


def assemble_overlay(prop, cfg, work, repo):
    """Collect harness sources for package cfg['pkg'] into work/overlay; returns harness names."""
    ov = os.path.join(work, "overlay")
    os.makedirs(ov, exist_ok=True)
    pkgname = cfg["pkg"].split("/")[-1]
    lib = open(os.path.join(VERIF, "harness", "common", "zz_vf_lib.go")).read().replace("package PKG", "package " + pkgname)
    open(os.path.join(ov, "zz_vf_lib.go"), "w").write(lib)
    for f in sorted(glob.glob(os.path.join(VERIF, "harness", pkgname, "*.go"))):
        # in package streams a property's harness file needs that property's generated companion:
        # take only the files of this property (and the untagged shared ones)
        m = re.match(r"zz_vf_(c\d\d)", os.path.basename(f))
        if pkgname == "streams" and m and m.group(1).upper() != prop:
            continue
        shutil.copy(f, ov)
    for gen in cfg.get("gen", []):
        subprocess.run([sys.executable, os.path.join(VERIF, "checks", gen), os.path.join(repo, "astool"), ov, repo], check=True)
    names = []
    for f in sorted(glob.glob(os.path.join(ov, "*.go"))):
        for m in re.finditer(r"^func (Vf%s_\w+)\(\)" % prop, open(f).read(), re.M):
            names.append(m.group(1))
    return ov, names


def regen_streams(work):
    """Regenerate streams from the working tree's astool into a scratch copy; return path if it differs."""
    scratch = os.path.join(work, "regen")
    subprocess.run(["rsync", "-a", "--exclude", ".git", REPO + "/", scratch + "/"], check=True)
    shutil.rmtree(os.path.join(scratch, "streams", "impl"), ignore_errors=True)
    shutil.rmtree(os.path.join(scratch, "streams", "vocab"), ignore_errors=True)
    shutil.rmtree(os.path.join(scratch, "streams", "values"), ignore_errors=True)
    for f in glob.glob(os.path.join(scratch, "streams", "gen_*.go")):
        os.remove(f)
    cmd = ["go", "run", "./astool", "-spec", "astool/activitystreams.jsonld", "-spec", "astool/security-v1.jsonld",
           "-spec", "astool/toot.jsonld", "-spec", "astool/forgefed.jsonld", "-path", "github.com/go-fed/activity", "./streams"]
    p = subprocess.run(cmd, cwd=scratch, env=GOENV, stdout=subprocess.PIPE, stderr=subprocess.STDOUT, text=True)
    if p.returncode != 0:
        return None, "astool failed: " + p.stdout[-500:]
    d = subprocess.run(["diff", "-rq", os.path.join(REPO, "streams"), os.path.join(scratch, "streams")],
                       stdout=subprocess.PIPE, text=True)
    if d.returncode == 0:
        shutil.rmtree(scratch, ignore_errors=True)
        return None, "identical"
    return scratch, d.stdout[:2000]


def run_symgo(repo, cfg, ov, names, params, work, tag, timeout_s, extra=None):
    out = os.path.join(work, "res_%s.json" % tag)
    res_all = []
    # chunk harness lists to keep command lines sane
    CH = 80
    for i in range(0, len(names), CH):
        chunk = names[i:i + CH]
        o = out + ".%d" % i
        cmd = [SYMGO, "run", "-repo", repo, "-pkg", cfg["pkg"], "-overlay", ov, "-harness", ",".join(chunk), "-out", o,
               "-param", ",".join("%s=%d" % kv for kv in sorted(params.items())), "-timeout", "%ds" % timeout_s]
        if cfg.get("tlimit"):
            cmd += ["-tlimit", str(cfg["tlimit"])]
        if cfg.get("instrs"):
            cmd += ["-instrs", str(cfg["instrs"])]
        if extra:
            cmd += extra
        p = subprocess.run(cmd, env=GOENV, stdout=subprocess.PIPE, stderr=subprocess.PIPE, text=True)
        if os.environ.get("VERIF_VERBOSE"):
            sys.stderr.write(p.stderr)
        else:
            sys.stderr.write("".join(l + "\n" for l in p.stderr.splitlines() if "CANDIDATE" in l or "INCONCLUSIVE" in l or "symgo:" in l)[-6000:])
        if p.returncode != 0 or not os.path.exists(o):
            return None, "symgo failed (exit %d): %s" % (p.returncode, p.stderr[-1500:])
        res_all += json.load(open(o))
    return res_all, None


REPLAY_TEST = '''//go:build verif

package %(pkg)s

import (
	"fmt"
	"os"
	"testing"
	"time"
)

var vfRegistry = map[string]func(){
%(reg)s
}

func vfWatchdog() time.Duration {
	if vfTape.Label == "deadlock" {
		return 12 * time.Second
	}
	return 60 * time.Second
}

func TestVfReplay(t *testing.T) {
	if err := vfLoadTape(os.Getenv("VF_TAPE")); err != nil {
		t.Fatalf("tape: %%v", err)
	}
	for k, v := range vfTape.Params {
		vfParams[k] = v
	}
	fn := vfRegistry[vfTape.Harness]
	if fn == nil {
		t.Fatalf("unknown harness %%q", vfTape.Harness)
	}
	done := make(chan string, 1)
	go func() {
		defer func() {
			if p := recover(); p != nil {
				if a, ok := p.(vfAssumeFailed); ok {
					done <- "assume:" + a.label
					return
				}
				done <- fmt.Sprintf("panic:%%v", p)
				return
			}
			done <- "returned"
		}()
		fn()
	}()
	var outcome string
	select {
	case outcome = <-done:
	case <-time.After(vfWatchdog()):
		outcome = "hang"
	}
	fmt.Printf("VF-REPLAY outcome=%%q failed=%%q missing=%%q\\n", outcome, vfFailed, vfMissing)
	want := vfTape.Label
	switch vfTape.Kind {
	case "assert":
		if want == "deadlock" && outcome == "hang" {
			fmt.Println("VF-REPLAY: REPRODUCED")
			t.Fatalf("native run deadlocked")
		}
		for _, l := range vfFailed {
			if l == want {
				fmt.Println("VF-REPLAY: REPRODUCED")
				t.Fatalf("assertion %%s failed natively", want)
			}
		}
		if len(outcome) > 6 && outcome[:6] == "panic:" {
			// the same input makes the native code panic before the assertion is reached: the
			// counterexample is real (a crash instead of the wrong answer the model predicted)
			fmt.Println("VF-REPLAY: REPRODUCED")
			t.Fatalf("native run panicked on the counterexample of %%s: %%s", want, outcome)
		}
	case "panic":
		if len(outcome) > 6 && outcome[:6] == "panic:" {
			fmt.Println("VF-REPLAY: REPRODUCED")
			t.Fatalf("native run panicked: %%s", outcome)
		}
	case "hang":
		if outcome == "hang" {
			fmt.Println("VF-REPLAY: REPRODUCED")
			t.Fatalf("native run did not return")
		}
	}
	fmt.Println("VF-REPLAY: NOT REPRODUCED")
}
'''


def replay(prop, cfg, ov, names, viol, params, repo, dest):
    """Replay one counterexample natively; returns (reproduced, log)."""
    os.makedirs(dest, exist_ok=True)
    pkgname = cfg["pkg"].split("/")[-1]
    pkgdir = os.path.join(repo, cfg["pkg"].lstrip("./"))
    ovmap = {}
    for f in sorted(glob.glob(os.path.join(ov, "*.go"))):
        d = os.path.join(dest, os.path.basename(f))
        shutil.copy(f, d)
        ovmap[os.path.join(pkgdir, os.path.basename(f))] = d
    reg = "\n".join('\t"%s": %s,' % (n, n) for n in names)
    t = os.path.join(dest, "zz_vf_replay_test.go")
    open(t, "w").write(REPLAY_TEST % {"pkg": pkgname, "reg": reg})
    ovmap[os.path.join(pkgdir, "zz_vf_replay_test.go")] = t
    json.dump({"Replace": ovmap}, open(os.path.join(dest, "overlay.json"), "w"), indent=1)
    tape = {"harness": viol["harness"], "tape": viol["tape"], "label": viol["label"], "kind": viol["kind"], "params": params,
            "site": viol["site"], "msg": viol["msg"], "decisions": viol["decisions"]}
    json.dump(tape, open(os.path.join(dest, "tape.json"), "w"), indent=1)
    sh = ("#!/bin/sh\n# replays the counterexample against the native build of %s\ncd %s && "
          "GOFLAGS=-mod=mod GOPROXY=off GOSUMDB=off GOTOOLCHAIN=local VF_TAPE=%s/tape.json "
          "go test %s-tags verif -vet=off -count=1 -overlay %s/overlay.json -run 'TestVfReplay$' -v %s\n") % (
              repo, repo, dest, "-race " if viol["label"] == "data-race" else "", dest, cfg["pkg"])
    open(os.path.join(dest, "run.sh"), "w").write(sh)
    os.chmod(os.path.join(dest, "run.sh"), 0o755)
    try:
        p = subprocess.run(["sh", os.path.join(dest, "run.sh")], stdout=subprocess.PIPE, stderr=subprocess.STDOUT, text=True, timeout=600)
        out = p.stdout
    except subprocess.TimeoutExpired:
        out = "replay timed out"
    open(os.path.join(dest, "replay.log"), "w").write(out)
    if viol["kind"] == "hang" and ("goroutine stack exceeds" in out or "stack overflow" in out or "replay timed out" in out or "test timed out" in out):
        return True, out  # unbounded recursion / no return: the native process died or hung
    if viol["label"] == "data-race" and "WARNING: DATA RACE" in out:
        return True, out
    return "VF-REPLAY: REPRODUCED" in out, out


def load_known():
    p = os.path.join(VERIF, "known_findings.json")
    if not os.path.exists(p):
        return []
    return json.load(open(p))


def match_known(known, prop, v):
    for k in known:
        if k.get("status") != "known" or k.get("property") != prop:
            continue
        if k.get("label") not in (None, v["label"]):
            continue
        if k.get("harness") and not re.fullmatch(k["harness"], v["harness"]):
            continue
        if k.get("site") and not re.search(k["site"], v["site"]):
            continue
        if k.get("msg") and not re.search(k["msg"], v["msg"]):
            continue
        if k.get("pattern") is not None and not re.search(k["pattern"], v.get("pattern", "")):
            continue
        return k
    return None


def main():
    prop, tier = sys.argv[1], (sys.argv[2] if len(sys.argv) > 2 else os.environ.get("VERIF_TIER", "quick"))
    seed = int(os.environ.get("VERIF_SEED", "0") or 0)
    cfg = PLAN[prop]
    t0 = time.time()
    ensure_engine()
    work = tempfile.mkdtemp(prefix="vf-%s-" % prop, dir=os.environ.get("VERIF_SCRATCH", "/var/tmp"))
    rc = 0
    try:
        rc = check(prop, tier, seed, cfg, work, t0)
    finally:
        shutil.rmtree(work, ignore_errors=True)
    sys.exit(rc)


def check(prop, tier, seed, cfg, work, t0):
    tcfg = cfg["tiers"][tier]
    params = dict(tcfg.get("params", {}))
    params["seed"] = seed
    trees = [("working-tree", REPO)]
    regen_note = "not applicable"
    if cfg.get("regen") or any(p.get("regen") for p in cfg.get("parts", [])):
        scratch, note = regen_streams(work)
        regen_note = note if scratch is None else "regenerated streams differs from shipped: analysed both"
        if scratch:
            trees.append(("regenerated", scratch))
        elif note != "identical":
            regen_note = "regeneration failed: " + note
    known = load_known()
    all_res, problems, confirmed, known_hits, unconfirmed, not_replayed = [], [], [], {}, [], []
    names = []
    parts = cfg.get("parts") or [cfg]
    jobs = []
    for tname, repo in trees:
        for pi, part in enumerate(parts):
            if tname == "regenerated" and not part.get("regen", cfg.get("regen")):
                continue
            pcfg = dict(cfg)
            pcfg.update(part)
            jobs.append((tname, repo, pi, pcfg))
    for tname, repo, pi, pcfg in jobs:
        ov, names = assemble_overlay(prop, pcfg, os.path.join(work, "%s-%d" % (tname, pi)), repo)
        sel = tcfg.get("harness")
        run_names = [n for n in names if re.fullmatch(sel, n)] if sel else names
        res, err = run_symgo(repo, pcfg, ov, run_names, params, work, "%s-%d" % (tname, pi), tcfg.get("timeout_s", 3000))
        if err:
            problems.append("%s: %s" % (tname, err))
            continue
        cfg_part = pcfg
        for r in res:
            r["tree"] = tname
            all_res.append(r)
            for m, n in r["inconclusive"].items():
                problems.append("%s/%s: %s (x%d)" % (tname, r["harness"], m, n))
            if not r["exhausted"]:
                problems.append("%s/%s: exploration not exhausted" % (tname, r["harness"]))
            need = list(cfg.get("covers", ["end"]))
            for rx, cs in cfg.get("covers_by_harness", {}).items():
                if re.fullmatch(rx, r["harness"]):
                    need += cs
            for c in need:
                if r["covers"].get(c, 0) == 0 and not r["violations"]:
                    problems.append("%s/%s: vacuity witness %r never reached" % (tname, r["harness"], c))
            # group counterexamples by signature
            groups = {}
            for v in r["violations"]:
                sig = (v["harness"], v["kind"], v["label"], v["site"])
                groups.setdefault(sig, []).append(v)
            for sig, vs in sorted(groups.items()):
                k = match_known(known, prop, vs[0])
                if k is not None and all(match_known(known, prop, v) is k for v in vs):
                    known_hits.setdefault(k["what"], 0)
                    known_hits[k["what"]] += len(vs)
                    continue
                vs = [v for v in vs if match_known(known, prop, v) is None] or vs
                if len(confirmed) >= int(os.environ.get("VERIF_MAX_REPLAYS", "6")):
                    not_replayed.append({"sig": sig, "tree": tname, "msg": vs[0]["msg"], "n": len(vs)})
                    continue
                ok = False
                for n, v in enumerate(vs[:3]):
                    h = hashlib.sha1(json.dumps([tname, sig, n]).encode()).hexdigest()[:10]
                    dest = os.path.join(OUT, "replays", prop, h)
                    shutil.rmtree(dest, ignore_errors=True)
                    rep, out = replay(prop, cfg_part, ov, names, v, params, repo, dest)
                    if rep:
                        confirmed.append({"sig": sig, "replay": dest, "tree": tname, "msg": v["msg"], "pattern": v.get("pattern", "")})
                        ok = True
                        break
                    if not os.environ.get("VERIF_KEEP_UNCONFIRMED"):
                        shutil.rmtree(dest, ignore_errors=True)
                if not ok:
                    unconfirmed.append({"sig": sig, "tree": tname, "msg": vs[0]["msg"], "n": len(vs)})
                    problems.append("%s/%s: counterexample for %s at %s did not reproduce natively (encoding or stub wrong?)" % (tname, sig[0], sig[2], sig[3]))
    wall = time.time() - t0
    # ---- evidence
    paths = sum(r["paths"] for r in all_res)
    ok_paths = sum(r["paths_ok"] for r in all_res)
    fq = sum(r["feasibility_queries"] for r in all_res)
    aq = sum(r["assertion_queries"] for r in all_res)
    funcs = sorted({f for r in all_res for f in (r["functions_encoded"] or [])})
    samples = []
    for r in all_res[:4]:
        for s in r["samples"][:2]:
            samples.append({"harness": r["harness"], "tree": r["tree"], **s})
    ev = {
        "property_id": prop, "tier": tier, "seed": seed, "level": "other",
        "coverage": {
            "explanation": cfg["explanation"],
            "evaluations": fq + aq,
            "distinct_nontrivial": paths,
            "rule": "evaluations = SMT queries discharged (feasibility + assertion); distinct_nontrivial = distinct decision sequences (paths) explored, each an equivalence class of inputs/schedules/fault positions; a path is counted once, pruned (assumption-violating) and infeasible paths included in 'paths' and listed separately below",
            "samples": samples,
            "exhaustive": not problems,
            "bounds": {"tier_params": params, "stated": tcfg.get("bounds", cfg.get("bounds", ""))},
            "outside_claim": cfg.get("outside", ""),
            "harnesses": len(all_res), "paths": paths, "paths_completed_ok": ok_paths,
            "paths_pruned_by_assumption": sum(r["pruned_by_assume"] for r in all_res),
            "paths_infeasible": sum(r["infeasible"] for r in all_res),
            "paths_ending_in_panic": sum(r["panic_paths"] for r in all_res),
            "feasibility_queries": fq, "assertion_queries": aq,
            "solver": "cvc5 1.0.3 --incremental --strings-exp", "solver_wall_s": round(sum(r["solver_wall_s"] for r in all_res), 2),
            "instructions_interpreted": sum(r["instructions"] for r in all_res),
            "functions_encoded": funcs[:400], "functions_encoded_count": len(funcs),
            "vacuity_markers": sorted({c for r in all_res for c in r["covers"]}),
            "engine_notes": sorted({n for r in all_res for n in r["notes"]}),
            "inconclusive": problems[:50], "inconclusive_count": len(problems),
            "counterexamples_confirmed_natively": [c["sig"] for c in confirmed],
            "counterexamples_unconfirmed": unconfirmed,
            "further_counterexamples_not_replayed": not_replayed[:50],
            "known_findings_matched": known_hits,
            "trees": [t for t, _ in trees], "regeneration": regen_note,
        },
        "assumptions": cfg.get("assumptions", []),
        "wall_s": round(wall, 2),
        "violations": len(confirmed),
    }
    os.makedirs(os.path.join(OUT, "evidence"), exist_ok=True)
    json.dump(ev, open(os.path.join(OUT, "evidence", prop + ".json"), "w"), indent=1)
    # ---- report
    for what, n in sorted(known_hits.items()):
        log("KNOWN-FINDING: property=%s %s (%d counterexample paths)" % (prop, what, n))
    for c in confirmed:
        log("VIOLATION property=%s replay=%s" % (prop, c["replay"]))
        log("  harness=%s kind=%s label=%s site=%s tree=%s\n  %s" % (c["sig"][0], c["sig"][1], c["sig"][2], c["sig"][3], c["tree"], c["msg"]))
    if not_replayed:
        log("  (+%d further counterexample signatures not replayed once %d were confirmed)" % (len(not_replayed), len(confirmed)))
    for pmsg in problems[:30]:
        log("INCONCLUSIVE property=%s %s" % (prop, pmsg))
    log("%s %s: harnesses=%d paths=%d queries=%d solver=%.1fs wall=%.1fs confirmed=%d inconclusive=%d" %
        (prop, tier, len(all_res), paths, fq + aq, ev["coverage"]["solver_wall_s"], wall, len(confirmed), len(problems)))
    if confirmed:
        return 1
    if problems:
        return 2
    return 0


if __name__ == "__main__":
    main()
