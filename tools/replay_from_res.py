#!/usr/bin/env python3
"""replay_from_res.py <pkg> <res.json> <overlay-dir> : replay the first counterexample of every (harness,label,site) natively against /repo."""
import json, os, re, sys, glob
sys.path.insert(0, "/verif/checks")
import run
pkg, res, ov = sys.argv[1], sys.argv[2], sys.argv[3]
names = []
for f in sorted(glob.glob(os.path.join(ov, "*.go"))):
    names += re.findall(r"^func (VfC\d+_\w+)\(\)", open(f).read(), re.M)
seen = set()
for h in json.load(open(res)):
    for v in h["violations"]:
        sig = (v["label"], v["site"])
        if sig in seen:
            continue
        seen.add(sig)
        dest = "/verif/replays/manual/%s_%d" % (h["harness"], len(seen))
        ok, out = run.replay("CXX", {"pkg": "./" + pkg}, ov, names, v, h.get("params", {}), run.REPO, dest)
        tail = [l for l in out.splitlines() if "VF-REPLAY" in l or "panic" in l.lower()][:4]
        print(("REPRODUCED " if ok else "NOT-REPRODUCED ") + h["harness"], v["label"], v["site"].split("/")[-1], "|", v["msg"][:80], "|", dest)
        for l in tail: print("     ", l[:200])
