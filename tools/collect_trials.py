#!/usr/bin/env python3
"""collect_trials.py: build seeded/RESULTS.md from the logs of tools/sweep_seeds.sh and tools/try_seed.sh runs
(latest outcome per seed for the check of the seed's own property)."""
import glob, json, os, re, sys
root = os.path.join(os.path.dirname(os.path.abspath(__file__)), "..", "seeded")
logs = sorted(glob.glob("/root/.vp/runs/*/log") + glob.glob("/tmp/trials*.log") + glob.glob("/tmp/try_*.out") + glob.glob("/tmp/claude-0/-verif/*/tasks/*.output"), key=os.path.getmtime)
extra = sys.argv[1:]
res = {}
for f in logs + extra:
    try:
        lines = open(f, errors="replace").read().splitlines()
    except Exception:
        continue
    if len(lines) > 200000:
        continue
    pend = []
    for l in lines:
        m = re.match(r"RESULT seed=(\S+) prop=(\S+) tier=quick exit=(\d+) secs=(\d+) inconclusive=\d+ ?(.*)", l)
        if m:
            res[m.group(1)] = (m.group(2), m.group(3), m.group(4), m.group(5).split(";")[0])
            continue
        m = re.match(r"\s+harness=(\S+) kind=(\S+) label=(\S+)", l)
        if m:
            pend.append("harness=%s kind=%s label=%s" % m.groups())
            continue
        m = re.match(r"seed=(\S+) prop=(\S+) tier=quick exit=(\d+)", l)
        if m:
            seed, prop, rc = m.groups()
            own = json.load(open(os.path.join(root, seed, "meta.json"))).get("property") if os.path.exists(os.path.join(root, seed, "meta.json")) else prop
            if prop == own:
                res[seed] = (prop, rc, "-", pend[0] if pend else "")
            pend = []
out = ["| seed | property | check run | exit | seconds | caught by (harness / label) |", "|---|---|---|---|---|---|"]
for seed in sorted(res):
    p, rc, secs, h = res[seed]
    out.append("| %s | %s | %s quick | %s | %s | %s |" % (seed, p, p, rc, secs, h))
open(os.path.join(root, "RESULTS.md"), "w").write("\n".join(out) + "\n")
have = set(res)
allseeds = {os.path.basename(d) for d in glob.glob(os.path.join(root, "C*_m*"))}
print("recorded:", len(have & allseeds), "of", len(allseeds), "missing:", sorted(allseeds - have))
print("not caught by own property's check:", sorted(s for s in have & allseeds if res[s][1] != "1"))
