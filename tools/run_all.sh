#!/bin/sh
# run_all.sh <tier> [props...]: run the registered checks one after the other on /repo, one summary line each.
tier=${1:-quick}; shift
props=${*:-C13 C06 C20 C17 C16 C04 C03 C14 C12 C01 C19 C10 C07 C05 C09 C08 C11 C18 C02}
here=$(cd "$(dirname "$0")/.." && pwd)
cd $here
for p in $props; do
  t0=$(date +%s)
  VERIF_SCRATCH=/var/tmp python3 checks/run.py $p $tier > /tmp/runall_$p.$tier.log 2>&1; rc=$?
  t1=$(date +%s)
  echo "RUNALL prop=$p tier=$tier exit=$rc secs=$((t1-t0)) $(grep -c '^INCONCLUSIVE' /tmp/runall_$p.$tier.log) inconclusive; $(tail -1 /tmp/runall_$p.$tier.log | cut -c1-160)"
  grep '^INCONCLUSIVE\|^VIOLATION' /tmp/runall_$p.$tier.log | head -5 | cut -c1-250
done
