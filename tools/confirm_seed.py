#!/usr/bin/env python3
"""confirm_seed.py <agent-out-dir> <seed-name>: independently confirm a seeded mutant in a scratch worktree
(compiles, pinned suite still passes, demo fails with the patch and passes without), then store it under /verif/seeded/<seed-name>/."""
import json, os, shutil, subprocess, sys
src, name = sys.argv[1], sys.argv[2]
ENV = dict(os.environ, GOFLAGS="-mod=mod", GOPROXY="off", GOSUMDB="off", GOTOOLCHAIN="local")
wt = "/tmp/wt/confirm_" + name
def sh(cmd, **kw):
    return subprocess.run(cmd, shell=True, env=ENV, stdout=subprocess.PIPE, stderr=subprocess.STDOUT, text=True, **kw)
sh("git -C /repo worktree remove --force %s" % wt)
r = sh("git -C /repo worktree add --detach %s HEAD" % wt); assert r.returncode == 0, r.stdout
ran = []
try:
    meta = json.load(open(os.path.join(src, "meta.json")))
    pkg = meta.get("package_for_demo", "pub").split()[0].strip("/").rstrip("/")
    if pkg not in ("pub", "streams"):
        pkg = "pub" if "pub" in pkg else "streams"
    demo = os.path.join(src, "demo_test.go")
    r = sh("git -C %s apply %s" % (wt, os.path.join(src, "patch.diff"))); ran.append("git apply patch.diff -> %d" % r.returncode); assert r.returncode == 0, r.stdout
    r = sh("cd %s && go build ./..." % wt); ran.append("go build ./... -> %d" % r.returncode); assert r.returncode == 0, r.stdout
    r = sh("python3 /verif/tools/baseline_check.py %s" % wt); ran.append("baseline_check (mutant) -> %d: %s" % (r.returncode, r.stdout.strip().splitlines()[0] if r.stdout.strip() else "")); base_ok = r.returncode == 0
    shutil.copy(demo, os.path.join(wt, pkg, "zz_seed_demo_test.go"))
    r = sh("cd %s && go test -vet=off -count=1 -run TestSeedDemo ./%s/" % (wt, pkg)); ran.append("demo with mutant -> exit %d" % r.returncode); fails_with = r.returncode != 0
    os.remove(os.path.join(wt, pkg, "zz_seed_demo_test.go"))
    sh("git -C %s checkout -- . && git -C %s clean -fdq" % (wt, wt))
    shutil.copy(demo, os.path.join(wt, pkg, "zz_seed_demo_test.go"))
    r = sh("cd %s && go test -vet=off -count=1 -run TestSeedDemo ./%s/" % (wt, pkg)); ran.append("demo without mutant -> exit %d" % r.returncode); passes_without = r.returncode == 0
    ok = base_ok and fails_with and passes_without
    print(name, "CONFIRMED" if ok else "REJECTED", ran)
    if ok:
        dst = "/verif/seeded/" + name
        os.makedirs(dst, exist_ok=True)
        shutil.copy(os.path.join(src, "patch.diff"), dst)
        shutil.copy(demo, os.path.join(dst, "demo_test.go"))
        json.dump({"property": meta.get("property"), "breaks": meta.get("why_it_breaks_the_property"), "what_changed": meta.get("what_changed"),
                   "needs_to_manifest": meta.get("needs_to_manifest"), "demo_package": pkg, "author": "independent sub-agent given only the property text",
                   "confirmed_by_me": ran}, open(os.path.join(dst, "meta.json"), "w"), indent=1)
finally:
    sh("git -C /repo worktree remove --force %s" % wt)
