#!/bin/sh
# try_seed.sh <seed-name> <property> [tier] : apply a seeded change to /repo, run the property's check, undo the change.
seed=$1; prop=$2; tier=${3:-quick}
git -C /repo apply /verif/seeded/$seed/patch.diff || { echo "patch does not apply"; exit 9; }
python3 /verif/checks/run.py $prop $tier > /tmp/try_$seed.$prop.log 2>&1; rc=$?
git -C /repo checkout -- . ; git -C /repo clean -fdq
grep -E "^(VIOLATION|KNOWN-FINDING|INCONCLUSIVE|C[0-9]+ )" /tmp/try_$seed.$prop.log | cut -c1-260 | head -${LINES_MAX:-12}
echo "seed=$seed prop=$prop tier=$tier exit=$rc"
