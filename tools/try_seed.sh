#!/bin/sh
# try_seed.sh <seed-name> <property> [tier] : run a property's check against a seeded change.
# The change is applied to a scratch git worktree of /repo's HEAD (never to /repo itself), the check runs with
# VERIF_REPO pointing there, and the worktree is removed afterwards.
seed=$1; prop=$2; tier=${3:-quick}
wt=/tmp/wt/try_${seed}_${prop}_$$
git -C /repo worktree add --detach $wt HEAD >/dev/null 2>&1 || { echo "cannot create worktree"; exit 9; }
if ! git -C $wt apply /verif/seeded/$seed/patch.diff 2>/dev/null; then
  git -C $wt apply --3way /verif/seeded/$seed/patch.diff >/dev/null 2>&1 || { echo "seed=$seed patch does not apply"; git -C /repo worktree remove --force $wt; exit 9; }
fi
VERIF_REPO=$wt python3 /verif/checks/run.py $prop $tier > /tmp/try_$seed.$prop.log 2>&1; rc=$?
git -C /repo worktree remove --force $wt
grep -E "^(VIOLATION|KNOWN-FINDING|INCONCLUSIVE|C[0-9]+ )" /tmp/try_$seed.$prop.log | cut -c1-220 | head -${LINES_MAX:-8}
grep -A1 "^VIOLATION" /tmp/try_$seed.$prop.log | grep harness= | cut -c1-200 | head -4
echo "seed=$seed prop=$prop tier=$tier exit=$rc"
