#!/bin/sh
# dev.sh <pkg:pub|streams> <harness,list> [extra symgo flags...]
pkg=$1; shift; h=$1; shift
d=/verif/tmp/dev_$pkg; rm -rf $d; mkdir -p $d
sed "s/^package PKG/package $pkg/" /verif/harness/common/zz_vf_lib.go > $d/zz_vf_lib.go
cp /verif/harness/$pkg/*.go $d/
if [ "$pkg" = streams ]; then GEN="gen_c01.py gen_c11.py gen_c12.py gen_c13.py gen_c14.py gen_c18.py"; fi
for g in $GEN; do python3 /verif/checks/$g ${VERIF_REPO:-/repo}/astool $d ${VERIF_REPO:-/repo}; done
cd /verif/engine && GOFLAGS=-mod=mod GOPROXY=off GOSUMDB=off GOTOOLCHAIN=local go build -o symgo ./cmd/symgo && ./symgo run -repo ${VERIF_REPO:-/repo} -pkg ./$pkg -overlay $d -harness $h -out $d/res.json "$@"
