#!/usr/bin/env python3
"""Run the pinned test suite of a go-fed/activity tree and compare with BASELINE.json's stable_pass.
usage: baseline_check.py <repo-dir> [extra go test flags...]   exit 0 iff every stable_pass test passes."""
import json, os, subprocess, sys
repo = sys.argv[1] if len(sys.argv) > 1 else "/repo"
extra = sys.argv[2:]
base = json.load(open(os.environ.get("VP_BASELINE", "/root/.vp/BASELINE.json")))
want = set(base["stable_pass"])
env = dict(os.environ, GOFLAGS="-mod=mod", GOPROXY="off", GOSUMDB="off", GOTOOLCHAIN="local")
p = subprocess.run(["go", "test", "-json", "-vet=off", "-count=1", "-timeout", "25m"] + extra + ["./..."],
                   cwd=repo, env=env, stdout=subprocess.PIPE, stderr=subprocess.STDOUT, text=True)
passed = set(); failed = set(); build_fail = []
for line in p.stdout.splitlines():
    try:
        ev = json.loads(line)
    except Exception:
        if "build failed" in line or "cannot" in line: build_fail.append(line)
        continue
    t = ev.get("Test")
    if ev.get("Action") == "fail" and not t: build_fail.append(ev.get("Package", "") + " FAIL")
    if not t: continue
    key = ev["Package"] + "::" + t
    if ev["Action"] == "pass": passed.add(key)
    elif ev["Action"] == "fail": failed.add(key)
missing = sorted(want - passed)
print("stable_pass=%d passed_now=%d failed_now=%d missing_from_baseline=%d" % (len(want), len(passed), len(failed), len(missing)))
for m in missing[:40]: print("  NOT PASSING:", m)
sys.exit(0 if not missing else 1)
