#!/bin/sh
# sweep_seeds.sh [tier] [seed-glob]: run each seeded change against the check of the property it breaks
# (scratch worktree per seed, removed afterwards) and print one result line per seed.
tier=${1:-quick}; pat=${2:-*}
here=$(cd "$(dirname "$0")/.." && pwd)
mkdir -p /tmp/wt
res=${RESULTS_OUT:-$here/seeded/RESULTS.md}
echo "| seed | property | check run | exit | seconds | caught by (harness / label) |" > $res; echo "|---|---|---|---|---|---|" >> $res
for d in $here/seeded/$pat/; do
  seed=$(basename $d)
  if [ -n "$SEEDS" ]; then case " $SEEDS " in *" $seed "*) ;; *) continue;; esac; fi
  prop=$(python3 -c "import json;print(json.load(open('$d/meta.json'))['property'])" 2>/dev/null)
  [ -z "$prop" ] && prop=$(echo $seed | cut -c1-3)
  wt=/tmp/wt/sweep_${seed}_$$
  git -C /repo worktree add --detach $wt HEAD >/dev/null 2>&1 || { echo "RESULT seed=$seed prop=$prop status=no-worktree"; continue; }
  if ! git -C $wt apply $d/patch.diff 2>/dev/null; then
    if ! git -C $wt apply --3way $d/patch.diff >/dev/null 2>&1; then
      echo "RESULT seed=$seed prop=$prop status=patch-does-not-apply"; git -C /repo worktree remove --force $wt; continue
    fi
  fi
  t0=$(date +%s)
  VERIF_REPO=$wt VERIF_SCRATCH=/var/tmp python3 $here/checks/run.py $prop $tier > /tmp/sweep_$seed.log 2>&1; rc=$?
  t1=$(date +%s)
  git -C /repo worktree remove --force $wt
  h=$(grep -A1 "^VIOLATION" /tmp/sweep_$seed.log | grep -o "harness=[A-Za-z0-9_]* kind=[a-z]* label=[^ ]*" | sort -u | head -3 | tr '\n' ';')
  inc=$(grep -c "^INCONCLUSIVE" /tmp/sweep_$seed.log)
  echo "RESULT seed=$seed prop=$prop tier=$tier exit=$rc secs=$((t1-t0)) inconclusive=$inc $h"
  echo "| $seed | $prop | $prop $tier | $rc | $((t1-t0)) | $h |" >> $res
done
