#!/usr/bin/env python3
"""seed_table.py: write /verif/seeded/README.md - one line per seeded change (what, what it needs, which check caught it in the
last sweep).  Input: seeded/*/meta.json, seeded/RESULTS.md (written by tools/sweep_seeds.sh) and seeded/EXTRA.json (results of
runs against sibling properties, recorded by hand)."""
import glob, json, os, re
root = os.path.join(os.path.dirname(os.path.abspath(__file__)), "..", "seeded")
res = {}
p = os.path.join(root, "RESULTS.md")
if os.path.exists(p):
    for line in open(p):
        c = [x.strip() for x in line.strip().strip("|").split("|")]
        if len(c) >= 6 and re.match(r"C\d\d_m\d+", c[0]):
            res[c[0]] = (c[3], c[5])
extra = {}
p = os.path.join(root, "EXTRA.json")
if os.path.exists(p):
    extra = json.load(open(p))
out = ["# Seeded changes", "",
       "Each directory holds `patch.diff` (apply to /repo with `git apply`, undo with `git checkout -- .`), the author's demonstration `demo_test.go` and `meta.json`.",
       "All were written by sub-agents that saw only the property text and a scratch worktree, and were confirmed in a scratch worktree (builds, pinned suite 700/700, demonstration fails with the change and passes without).",
       "`caught` = exit status of the property's quick check on the changed tree in the last sweep (1 = VIOLATION with a natively confirmed replay) and the first harness/label that reported it.", "",
       "| seed | property | change | needs | caught (quick check of the property) | also |", "|---|---|---|---|---|---|"]
def short(s, n):
    s = " ".join((s or "").split())
    return (s[:n] + "...") if len(s) > n else s
for d in sorted(glob.glob(os.path.join(root, "C*_m*"))):
    sid = os.path.basename(d)
    m = json.load(open(os.path.join(d, "meta.json")))
    r = res.get(sid, ("?", ""))
    caught = {"1": "yes", "0": "NO", "2": "inconclusive"}.get(r[0], r[0])
    hl = r[1].split(";")[0].replace("harness=", "").replace("kind=", "").replace("label=", "")
    out.append("| %s | %s | %s | %s | %s %s | %s |" % (sid, m.get("property"), short(m.get("what_changed"), 170).replace("|", "/"),
               short(m.get("needs_to_manifest"), 150).replace("|", "/"), caught, hl, extra.get(sid, "")))
open(os.path.join(root, "README.md"), "w").write("\n".join(out) + "\n")
print("seeds:", len(out) - 8, "missed:", [l.split("|")[1].strip() for l in out[8:] if "| NO " in l])
