//go:build verif

package streams

// C11 (decoder part): hostile input cannot crash or hang the JSON decoder.

import "context"

const vfASctx = "https://www.w3.org/ns/activitystreams"

// vfHostile returns a JSON value of a harness-chosen kind with symbolic leaves.
func vfHostile(tag string) interface{} {
	switch vfChoose(tag+".kind", 11) {
	case 0:
		return nil
	case 1:
		return vfBool(tag + ".bool")
	case 2:
		return vfFloat(tag + ".num")
	case 3:
		return vfString(tag + ".str")
	case 4:
		return []interface{}{}
	case 5:
		return []interface{}{vfString(tag + ".elem")}
	case 6:
		return map[string]interface{}{}
	case 7:
		return map[string]interface{}{"type": vfString(tag + ".type")}
	case 8:
		return []interface{}{[]interface{}{vfString(tag + ".nested")}}
	case 9:
		return map[string]interface{}{"type": "Note", "id": vfFloat(tag + ".idnum"), "name": nil}
	}
	return []interface{}{nil, vfFloat(tag + ".n2"), map[string]interface{}{"id": vfString(tag + ".objid")}}
}

func vfC11Decode(typ string, members, own []string) {
	vfHangCheck(true)
	if vfParam("full", 0) == 0 {
		members = own
	}
	doc := map[string]interface{}{
		"@context": []interface{}{vfASctx, "https://w3id.org/security/v1", "http://joinmastodon.org/ns", "https://forgefed.peers.community/ns"},
		"type":     typ,
		"id":       "https://example.com/x",
	}
	m := members[vfChoose("member", len(members))]
	doc[m] = vfHostile("v")
	if m == "@context" || m == "type" {
		vfCover("structural")
	}
	t, err := ToType(context.Background(), doc)
	if err == nil && t != nil {
		vfCover("decoded")
		_, _ = Serialize(t)
		_, _ = t.Serialize()
		t.JSONLDContext()
	}
	vfCover("end")
}
