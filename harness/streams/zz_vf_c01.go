//go:build verif

package streams

// C01: ActivityStreams documents survive decode -> encode without loss.

import (
	"context"
	"time"
)

type vfC01Prop struct {
	name       string
	vocab      string
	natLang    bool
	functional bool
}

var vfC01AllCtx = []interface{}{"https://www.w3.org/ns/activitystreams", "https://w3id.org/security/v1", "http://joinmastodon.org/ns", "https://forgefed.peers.community/ns"}

func vfNum(v interface{}) (float64, bool) {
	switch x := v.(type) {
	case float64:
		return x, true
	case int:
		return float64(x), true
	case int64:
		return float64(x), true
	}
	return 0, false
}

// vfJSONEqual: JSON equality of two trees (numbers compared by value, array order significant)
func vfJSONEqual(a, b interface{}) bool {
	if fa, ok := vfNum(a); ok {
		fb, ok2 := vfNum(b)
		return ok2 && fa == fb
	}
	switch x := a.(type) {
	case map[string]interface{}:
		y, ok := b.(map[string]interface{})
		if !ok || len(x) != len(y) {
			return false
		}
		r := true
		for k, v := range x {
			w, ok := y[k]
			if !ok {
				return false
			}
			r = vfAnd(r, vfJSONEqual(v, w))
		}
		return r
	case map[string]string:
		y, ok := b.(map[string]interface{})
		if !ok || len(x) != len(y) {
			return false
		}
		r := true
		for k, v := range x {
			w, ok := y[k].(string)
			if !ok {
				return false
			}
			r = vfAnd(r, vfStrEq(v, w))
		}
		return r
	case []interface{}:
		y, ok := b.([]interface{})
		if !ok || len(x) != len(y) {
			return false
		}
		r := true
		for i := range x {
			r = vfAnd(r, vfJSONEqual(x[i], y[i]))
		}
		return r
	case string:
		y, ok := b.(string)
		return ok && vfStrEq(x, y)
	case bool:
		y, ok := b.(bool)
		return ok && vfIff(x, y)
	case nil:
		return b == nil
	}
	if m, ok := b.(map[string]string); ok {
		return vfJSONEqual(m, a)
	}
	return false
}

// contexts named by an @context value (strings only; alias maps are not produced by Serialize)
func vfContexts(v interface{}) []string {
	switch x := v.(type) {
	case string:
		return []string{x}
	case []interface{}:
		var r []string
		for _, e := range x {
			if s, ok := e.(string); ok {
				r = append(r, s)
			}
		}
		return r
	}
	return nil
}

func vfSameSet(a, b []string) bool {
	for _, x := range a {
		if !vfStrIn(x, b) {
			return false
		}
	}
	for _, x := range b {
		if !vfStrIn(x, a) {
			return false
		}
	}
	return true
}

type vfC01Val struct {
	v        interface{}
	canon    bool     // in canonical lexical form: must come back JSON-equal
	vocabs   []string // vocabularies used by nested values
	hasNull  bool
	hasNest  bool // array directly inside an array
	isLang   bool
	emptyList bool
}

func vfC01Value() vfC01Val {
	switch vfChoose("value-kind", 12) {
	case 0:
		return vfC01Val{v: vfIRI("iri"), canon: true}
	case 1:
		s := vfString("text")
		vfAssume(vfNot(vfContains(s, ":")), "plain text (no scheme)")
		// a text that happens to be a timestamp is canonical only in whole-second RFC 3339 form
		// (time.Parse/Format are uninterpreted here): keep to texts that are no timestamps
		_, e1 := time.Parse(time.RFC3339, s)
		_, e2 := time.Parse("2006-01-02T15:04Z07:00", s)
		vfAssume(e1 != nil && e2 != nil, "the text is not a timestamp")
		return vfC01Val{v: s, canon: true}
	case 2:
		f := vfFloat("number")
		// canonical numbers: integer counts (0/1 given for a boolean are not canonical, fractions for a count neither)
		vfAssume(f == float64(int64(f)) && f >= 2 && f <= 1e9, "a whole number >= 2")
		return vfC01Val{v: f, canon: true}
	case 3:
		return vfC01Val{v: vfBool("flag"), canon: true}
	case 4:
		s := vfString("name")
		vfAssume(vfNot(vfContains(s, ":")), "plain text (no scheme)")
		return vfC01Val{v: map[string]interface{}{"type": "Note", "id": vfIRI("nested.id"), "name": s}, canon: true, vocabs: []string{"https://www.w3.org/ns/activitystreams"}}
	case 5:
		return vfC01Val{v: []interface{}{vfIRI("iri"), map[string]interface{}{"type": "Ticket", "id": vfIRI("nested.id")}}, canon: true,
			vocabs: []string{"https://forgefed.peers.community/ns"}}
	case 6:
		return vfC01Val{v: nil, hasNull: true}
	case 7:
		// unknown nested type with a nested @context (dropped) and members kept raw
		return vfC01Val{v: map[string]interface{}{"type": "VfUnknownType", "id": vfIRI("nested.id"), "vfFoo": []interface{}{1.0, "x"}}, canon: true}
	case 8:
		return vfC01Val{v: []interface{}{[]interface{}{vfIRI("iri")}, vfIRI("iri")}, hasNest: true}
	case 10:
		// canonical xsd:duration texts (concrete: the duration codec's regular expression and arithmetic are
		// executed for real); on every other property they are plain strings
		d := []string{"PT3M25S", "P1DT12H30M5S", "PT45S", "P2Y3M"}
		return vfC01Val{v: d[vfChoose("duration", len(d))], canon: true}
	case 9:
		// the empty list
		return vfC01Val{v: []interface{}{}, canon: true, emptyList: true}
	}
	// single-element list: written back as a scalar (not canonical)
	return vfC01Val{v: []interface{}{vfIRI("iri")}}
}

func vfC01(typ, typVocab string, all, own []vfC01Prop) {
	props := own
	if vfParam("full", 0) == 1 {
		props = all
	}
	if len(props) == 0 {
		vfCover("end")
		return
	}
	p := props[vfChoose("prop", len(props))]
	key := p.name
	val := vfC01Value()
	both := false
	if p.natLang {
		switch vfChoose("map-spelling", 3) {
		case 1:
			key = p.name + "Map"
			t1, t2 := vfString("text1"), vfString("text2")
			val = vfC01Val{v: map[string]interface{}{"en": t1, "fr-CA": t2}, canon: true, isLang: true}
		case 2:
			both = true
		}
	}
	doc := map[string]interface{}{"@context": vfC01AllCtx, "type": typ, "id": vfIRI("id"), key: val.v}
	if both {
		// both spellings of a natural-language property in one document
		doc[p.name+"Map"] = map[string]interface{}{"en": vfString("text1")}
	}
	// an unknown / extension member
	var ext interface{}
	switch vfChoose("ext-kind", 4) {
	case 0:
		ext = vfString("ext")
	case 1:
		ext = nil
	case 2:
		ext = map[string]interface{}{"a": 1.0, "b": []interface{}{"x", nil}, "c": map[string]interface{}{"d": true}}
	case 3:
		en := vfFloat("extnum")
		vfAssume(en == en && en-en == 0, "JSON has neither NaN nor infinities")
		ext = []interface{}{en, "y"}
	}
	doc["vfExtension"] = ext
	t, err := ToType(context.Background(), doc)
	if err != nil || t == nil {
		vfCover("rejected")
		vfCover("end")
		return
	}
	out, err := Serialize(t)
	vfAssert(err == nil && out != nil, "accepted-document-cannot-be-encoded")
	if err != nil {
		return
	}
	vfCover("round-trip")
	// unknown members verbatim (also nulls and nested objects)
	gotExt, has := out["vfExtension"]
	vfAssert(has, "unknown-member-dropped")
	if has {
		vfAssert(vfJSONEqual(vfJSONNorm(gotExt), ext), "unknown-member-changed")
	}
	vfAssert(out["type"] == typ, "type-member-changed")
	vfAssert(out["id"] == doc["id"], "id-member-changed")
	// the property member
	outKey := key
	if _, ok := out[outKey]; !ok && p.natLang {
		// a natural-language member may reappear under its other spelling
		if key == p.name {
			outKey = p.name + "Map"
		} else {
			outKey = p.name
		}
	}
	got, hasP := out[outKey]
	if val.hasNull {
		vfCover("null")
	} else {
		vfAssert(hasP, "known-member-silently-dropped")
		if hasP && val.canon && !(p.functional && vfIsList(val.v)) {
			vfCover("canonical")
			if !vfEngine() {
				vfLog("DOC ", doc)
				vfLog("OUT ", out)
			}
			vfAssert(vfJSONEqual(vfJSONNorm(got), val.v), "canonical-value-changed-by-the-round-trip")
		}
	}
	if both && !val.hasNull {
		vfCover("both-spellings")
		_, hasPlain := out[p.name]
		_, hasMap := out[p.name+"Map"]
		vfAssert(hasPlain && hasMap, "one-of-the-two-spellings-of-a-natural-language-member-silently-dropped")
	}
	// @context names exactly the vocabularies used
	// (a nested value counts only if the property's range admits it as a typed value)
	must := []string{typVocab}
	may := []string{typVocab}
	if hasP && !val.hasNull {
		must = append(must, p.vocab)
		may = append(may, p.vocab)
		may = append(may, val.vocabs...)
	}
	if val.hasNull {
		may = append(may, p.vocab) // (a null is not a canonical value: the property's vocabulary may still be named)
	}
	ctxs := vfContexts(out["@context"])
	for _, c := range must {
		vfAssert(vfStrIn(c, ctxs), "context-misses-a-vocabulary-that-is-used")
	}
	for _, c := range ctxs {
		vfAssert(vfStrIn(c, may), "context-names-a-vocabulary-that-is-not-used")
	}
	for i := range ctxs {
		for j := 0; j < i; j++ {
			vfAssert(ctxs[i] != ctxs[j], "context-names-a-vocabulary-twice")
		}
	}
	// no member other than @context appears that was not in the input
	for k := range out {
		if k == "@context" || k == outKey || (both && k == p.name+"Map") {
			continue
		}
		_, in := doc[k]
		vfAssert(in, "member-invented-by-the-round-trip:"+k)
	}
	// a second round trip changes nothing (unless a null or a nested array was involved)
	if !val.hasNull && !val.hasNest && ext != nil && !both {
		// (a real second trip goes through JSON text: normalise the Go types first)
		outN := vfJSONNorm(out).(map[string]interface{})
		t2, err2 := ToType(context.Background(), outN)
		vfAssert(err2 == nil && t2 != nil, "encoded-document-not-accepted-again")
		if err2 == nil && t2 != nil {
			out2, err3 := Serialize(t2)
			if !vfEngine() {
				vfLog("DOC ", doc)
				vfLog("OUT ", out)
				vfLog("OUT2", out2)
			}
			vfAssert(err3 == nil && vfJSONEqual(vfJSONNorm(out2), outN), "second-round-trip-changes-the-document")
		}
	}
	vfCover("end")
}

// vfJSONNorm: what a JSON encode + decode cycle makes of a Go tree
// (map[string]string -> object, ints -> numbers, []string -> array).
func vfJSONNorm(v interface{}) interface{} {
	switch x := v.(type) {
	case map[string]interface{}:
		if x == nil {
			return nil // encoding/json writes a nil map as null
		}
		r := make(map[string]interface{}, len(x))
		for k, e := range x {
			r[k] = vfJSONNorm(e)
		}
		return r
	case map[string]string:
		if x == nil {
			return nil
		}
		r := make(map[string]interface{}, len(x))
		for k, e := range x {
			r[k] = e
		}
		return r
	case []interface{}:
		if x == nil {
			return nil // encoding/json writes a nil slice as null, an empty one as []
		}
		r := make([]interface{}, len(x))
		for i, e := range x {
			r[i] = vfJSONNorm(e)
		}
		return r
	case []string:
		if x == nil {
			return nil
		}
		r := make([]interface{}, len(x))
		for i, e := range x {
			r[i] = e
		}
		return r
	case int:
		return float64(x)
	case int64:
		return float64(x)
	}
	return v
}

func vfIsList(v interface{}) bool {
	_, ok := v.([]interface{})
	return ok
}
