//go:build verif

package streams

import (
	"net/url"

	"github.com/go-fed/activity/streams/vocab"
)

// vfSpoofType is a vocab.Type whose type name (and vocabulary) are harness
// controlled, e.g. one symbolic string standing for every possible name.
type vfSpoofType struct {
	name  string
	vocab string
}

func (s *vfSpoofType) GetJSONLDId() vocab.JSONLDIdProperty     { return nil }
func (s *vfSpoofType) GetTypeName() string                     { return s.name }
func (s *vfSpoofType) JSONLDContext() map[string]string        { return nil }
func (s *vfSpoofType) Serialize() (map[string]interface{}, error) { return nil, nil }
func (s *vfSpoofType) SetJSONLDId(vocab.JSONLDIdProperty)      {}
func (s *vfSpoofType) VocabularyURI() string                   { return s.vocab }

var _ vocab.Type = (*vfSpoofType)(nil)
var _ = url.Parse
