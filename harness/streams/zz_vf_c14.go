//go:build verif

package streams

// C14: resolvers call exactly the callback written for the value's own type.

import (
	"context"
	"errors"

	"github.com/go-fed/activity/streams/vocab"
)

type vfC14Hit struct {
	typeIdx int
	copyNo  int
	valName string
}

type vfC14Rec struct {
	hits     []vfC14Hit
	errs     []error // error identity returned by callback (typeIdx*2+copy)
	predHits []int
	predRes  bool
	predErr  error
}

func (r *vfC14Rec) hit(idx, copyNo int, v vocab.Type) error {
	name := "<nil>"
	if v != nil {
		name = v.GetTypeName()
	}
	r.hits = append(r.hits, vfC14Hit{idx, copyNo, name})
	return r.errs[idx*2+copyNo]
}

func (r *vfC14Rec) pred(idx int, v vocab.Type) (bool, error) {
	r.predHits = append(r.predHits, idx)
	return r.predRes, r.predErr
}

func vfC14NewRec() *vfC14Rec {
	r := &vfC14Rec{}
	for i := 0; i < 2*len(vfC14Names); i++ {
		if i%3 == 0 {
			r.errs = append(r.errs, nil)
		} else {
			r.errs = append(r.errs, errors.New("callback error"))
		}
	}
	return r
}

// callback list: both copies of every callback, rotated; optionally one type left out entirely
func vfC14List(r *vfC14Rec, rot, omit int) ([]interface{}, []int, []int) {
	a := vfC14Callbacks(r, 0)
	b := vfC14Callbacks(r, 1)
	n := len(a)
	var list []interface{}
	var typ, cp []int
	for k := 0; k < 2*n; k++ {
		j := (k + rot) % (2 * n)
		ti, c := j%n, j/n
		if ti == omit {
			continue
		}
		if c == 0 {
			list = append(list, a[ti])
		} else {
			list = append(list, b[ti])
		}
		typ = append(typ, ti)
		cp = append(cp, c)
	}
	return list, typ, cp
}

func vfC14Index(name string) int {
	for i, n := range vfC14Names {
		if n == name {
			return i
		}
	}
	return -1
}

var vfC14Ctx = []interface{}{"https://www.w3.org/ns/activitystreams", "https://w3id.org/security/v1", "http://joinmastodon.org/ns", "https://forgefed.peers.community/ns"}

// expected first registered copy of type ti in the rotated list
func vfC14First(typ, cp []int, ti int) int {
	for k := range typ {
		if typ[k] == ti {
			return cp[k]
		}
	}
	return -1
}

// --- JSONResolver with a symbolic type name
func VfC14_JSON() {
	r := vfC14NewRec()
	rots := []int{0, 17, 63, 100}
	rot := rots[vfChoose("rotation", vfParam("rotations", len(rots)))]
	omit := -1
	if vfChoose("omit-one", 2) == 1 {
		// which type has no callback at all (quick tier: a spread sample of the types)
		no := vfParam("omits", len(vfC14Names))
		omit = (vfChoose("omitted", no) * (len(vfC14Names) / no)) % len(vfC14Names)
	}
	list, typ, cp := vfC14List(r, rot, omit)
	res, err := NewJSONResolver(list...)
	vfAssert(err == nil && res != nil, "constructor-rejected-legal-callbacks")
	if err != nil {
		return
	}
	t := vfString("type")
	vfAssume(vfNot(vfContains(t, ":")), "no JSON-LD prefix on the type name")
	doc := map[string]interface{}{"@context": vfC14Ctx, "type": t, "id": "https://example.com/x"}
	rerr := res.Resolve(context.Background(), doc)
	ti := vfC14Index(t) // forks: which name (if any) the type is
	vfC14Check(r, typ, cp, ti, omit, rerr, t)
	vfCover("end")
}

func vfC14Check(r *vfC14Rec, typ, cp []int, ti, omit int, rerr error, name string) {
	if ti < 0 {
		vfCover("unknown-type")
		vfAssert(len(r.hits) == 0, "callback-invoked-for-a-type-the-vocabularies-do-not-define")
		vfAssert(rerr != nil && IsUnmatchedErr(rerr), "unknown-type-not-reported-as-unmatched")
		return
	}
	if ti == omit {
		vfCover("no-callback")
		vfAssert(len(r.hits) == 0, "callback-of-another-type-invoked")
		vfAssert(rerr != nil && IsUnmatchedErr(rerr), "missing-callback-not-reported-as-unmatched")
		return
	}
	vfCover("matched")
	vfAssert(len(r.hits) == 1, "not-exactly-one-callback-invoked")
	if len(r.hits) == 1 {
		h := r.hits[0]
		vfAssert(h.typeIdx == ti, "callback-of-another-type-invoked")
		vfAssert(h.copyNo == vfC14First(typ, cp, ti), "not-the-first-registered-callback")
		vfAssert(h.valName == name, "callback-received-a-value-of-another-type")
		vfAssert(rerr == r.errs[ti*2+h.copyNo], "callback-error-not-returned-unchanged")
	}
}

// --- multi-valued type arrays
func VfC14_JSONMulti() {
	r := vfC14NewRec()
	omit := -1
	if vfChoose("omit-one", 2) == 1 {
		omit = vfChoose("omitted", len(vfC14Names))
	}
	list, typ, cp := vfC14List(r, 0, omit)
	res, err := NewJSONResolver(list...)
	if err != nil {
		vfAssert(false, "constructor-rejected-legal-callbacks")
		return
	}
	a := vfChoose("first", len(vfC14Names)+1)
	b := vfChoose("second", 4)
	names := []string{"VfUnknown"}
	if a < len(vfC14Names) {
		names[0] = vfC14Names[a]
	}
	second := []string{"Note", "Person", "VfOther", "Ticket"}[b]
	doc := map[string]interface{}{"@context": vfC14Ctx, "type": []interface{}{names[0], second}, "id": "https://example.com/x"}
	rerr := res.Resolve(context.Background(), doc)
	// the value's own type is the first entry the vocabularies define
	own := names[0]
	if vfC14Index(own) < 0 {
		own = second
	}
	ti := vfC14Index(own)
	vfC14Check(r, typ, cp, ti, omit, rerr, own)
	vfCover("end")
}

// --- TypeResolver on real values of every type
func VfC14_Type() {
	r := vfC14NewRec()
	rots := []int{0, 40, 64}
	rot := rots[vfChoose("rotation", len(rots))]
	omit := -1
	if vfChoose("omit-one", 2) == 1 {
		omit = vfChoose("omitted", len(vfC14Names))
	}
	list, typ, cp := vfC14List(r, rot, omit)
	res, err := NewTypeResolver(list...)
	vfAssert(err == nil && res != nil, "constructor-rejected-legal-callbacks")
	if err != nil {
		return
	}
	k := vfChoose("value-type", len(vfC14Names))
	v := vfC14New(k)
	rerr := res.Resolve(context.Background(), v)
	vfC14Check(r, typ, cp, k, omit, rerr, vfC14Names[k])
	vfCover("end")
}

// a value whose reported type name / vocabulary are symbolic
func VfC14_TypeSpoof() {
	r := vfC14NewRec()
	list, _, _ := vfC14List(r, 0, -1)
	res, err := NewTypeResolver(list...)
	if err != nil {
		return
	}
	o := &vfSpoofType{name: vfString("name"), vocab: vfString("vocab")}
	rerr := res.Resolve(context.Background(), o)
	known := false
	for i, n := range vfC14Names {
		if o.name == n && o.vocab == vfC14Vocab[i] {
			known = true
		}
	}
	if !known {
		vfCover("unknown")
		vfAssert(len(r.hits) == 0, "callback-invoked-for-an-undefined-type")
		vfAssert(rerr != nil && IsUnmatchedErr(rerr), "undefined-type-not-unmatched")
	} else {
		vfCover("claims-a-known-type")
		// the spoof does not implement the type's interface: no callback may receive it
		vfAssert(len(r.hits) == 0 && rerr != nil, "spoofed-value-reached-a-callback")
	}
	vfCover("end")
}

// --- predicated resolution
func VfC14_Predicated() {
	r := vfC14NewRec()
	list, typ, cp := vfC14List(r, 0, -1)
	delegate, err := NewTypeResolver(list...)
	if err != nil {
		return
	}
	pk := vfChoose("predicate-type", len(vfC14Names))
	r.predRes = vfBool("predicate-result")
	if vfChoose("predicate-error", 2) == 1 {
		r.predErr = errors.New("predicate error")
	}
	pr, err := NewTypePredicatedResolver(delegate, vfC14Predicate(r, pk))
	vfAssert(err == nil && pr != nil, "constructor-rejected-a-legal-predicate")
	if err != nil {
		return
	}
	vk := pk
	if vfChoose("same-type", 2) == 0 {
		vk = vfChoose("value-type", len(vfC14Names))
	}
	v := vfC14New(vk)
	ok, aerr := pr.Apply(context.Background(), v)
	if vk != pk {
		vfCover("other-type")
		vfAssert(len(r.predHits) == 0 && len(r.hits) == 0, "predicate-or-delegate-invoked-for-another-type")
		vfAssert(!ok && aerr == ErrPredicateUnmatched, "type-mismatch-not-ErrPredicateUnmatched")
		vfCover("end")
		return
	}
	vfCover("own-type")
	vfAssert(len(r.predHits) == 1 && r.predHits[0] == pk, "predicate-not-applied-exactly-once")
	if r.predErr != nil {
		vfAssert(aerr == r.predErr, "predicate-error-not-returned-unchanged")
		vfAssert(len(r.hits) == 0, "delegate-resolved-although-the-predicate-failed")
	} else if r.predRes {
		vfAssert(ok, "apply-did-not-report-the-predicate-passed")
		vfC14Check(r, typ, cp, vk, -1, aerr, vfC14Names[vk])
	} else {
		vfAssert(!ok && aerr == nil && len(r.hits) == 0, "delegate-resolved-although-the-predicate-said-no")
	}
	vfCover("end")
}

// --- ToType
func VfC14_ToType() {
	t := vfString("type")
	vfAssume(vfNot(vfContains(t, ":")), "no JSON-LD prefix on the type name")
	doc := map[string]interface{}{"@context": vfC14Ctx, "type": t, "id": "https://example.com/x"}
	v, err := ToType(context.Background(), doc)
	ti := vfC14Index(t)
	if ti < 0 {
		vfCover("unknown-type")
		vfAssert(v == nil && err != nil && IsUnmatchedErr(err), "unknown-type-not-unmatched")
	} else {
		vfCover("matched")
		vfAssert(err == nil && v != nil, "known-type-not-decoded")
		if v != nil {
			vfAssert(v.GetTypeName() == t && v.VocabularyURI() == vfC14Vocab[ti], "decoded-as-another-type")
		}
	}
	vfCover("end")
}

// --- constructors reject functions of any other shape
func VfC14_Constructors() {
	bad := []interface{}{
		func() {},
		func(context.Context) error { return nil },
		func(context.Context, vocab.Type) error { return nil },
		func(vocab.ActivityStreamsNote) error { return nil },
		func(context.Context, vocab.ActivityStreamsNote) {},
		func(context.Context, vocab.ActivityStreamsNote) (bool, error) { return false, nil },
		func(context.Context, vocab.ActivityStreamsNote, int) error { return nil },
		42,
		"func",
	}
	b := bad[vfChoose("shape", len(bad))]
	good := func(context.Context, vocab.ActivityStreamsNote) error { return nil }
	var list []interface{}
	if vfChoose("position", 2) == 0 {
		list = []interface{}{b, good}
	} else {
		list = []interface{}{good, b}
	}
	switch vfChoose("resolver", 3) {
	case 0:
		res, err := NewJSONResolver(list...)
		vfAssert(err != nil && res == nil, "json-resolver-accepted-a-function-of-another-shape")
	case 1:
		res, err := NewTypeResolver(list...)
		vfAssert(err != nil && res == nil, "type-resolver-accepted-a-function-of-another-shape")
	case 2:
		d, _ := NewTypeResolver(good)
		if _, isPred := b.(func(context.Context, vocab.ActivityStreamsNote) (bool, error)); !isPred {
			res, err := NewTypePredicatedResolver(d, b)
			vfAssert(err != nil && res == nil, "predicated-resolver-accepted-a-function-of-another-shape")
		}
	}
	vfCover("end")
}
