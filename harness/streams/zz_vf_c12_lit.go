//go:build verif

package streams

// C12 (literal kinds): typed accessors return the value the lexical form denotes.

import (
	"context"
	"time"

	"github.com/go-fed/activity/streams/vocab"
)

var vfC12Ctx = []interface{}{"https://www.w3.org/ns/activitystreams", "https://w3id.org/security/v1", "http://joinmastodon.org/ns", "https://forgefed.peers.community/ns"}

func vfC12Decode(typ, member string, v interface{}) vocab.Type {
	doc := map[string]interface{}{"@context": vfC12Ctx, "type": typ, member: v}
	val, err := ToType(context.Background(), doc)
	vfAssert(err == nil && val != nil, "document-rejected")
	if err != nil {
		return nil
	}
	return val
}

// xsd:nonNegativeInteger (totalItems on Collection): a whole non-negative number denotes itself;
// negative numbers are not values of the kind.
func VfC12_Lit_NonNegativeInteger() {
	f := vfFloat("n")
	val := vfC12Decode("Collection", "totalItems", f)
	if val == nil {
		return
	}
	p := val.(vocab.ActivityStreamsCollection).GetActivityStreamsTotalItems()
	whole := f == float64(int64(f)) && f >= 0 && f <= 1e9
	if whole {
		vfCover("whole")
		vfAssert(p != nil && p.IsXMLSchemaNonNegativeInteger(), "whole-non-negative-number-not-read-as-a-count")
		if p != nil && p.IsXMLSchemaNonNegativeInteger() {
			vfAssert(float64(p.Get()) == f, "count-differs-from-the-number-written")
		}
	}
	if f == float64(int64(f)) && f <= -1 && f >= -1e9 {
		vfCover("negative")
		vfAssert(p == nil || !p.IsXMLSchemaNonNegativeInteger(), "negative-number-read-as-a-non-negative-integer")
	}
	vfCover("end")
}

// xsd:boolean (manuallyApprovesFollowers on Person): true/false, and the numbers 1/0
func VfC12_Lit_Boolean() {
	var v interface{}
	var want, valid bool
	if vfChoose("json-kind", 2) == 0 {
		b := vfBool("b")
		v, want, valid = b, b, true
	} else {
		f := vfFloat("f")
		v = f
		if f == 1 {
			want, valid = true, true
		} else if f == 0 {
			want, valid = false, true
		}
	}
	val := vfC12Decode("Person", "manuallyApprovesFollowers", v)
	if val == nil {
		return
	}
	p := val.(vocab.ActivityStreamsPerson).GetActivityStreamsManuallyApprovesFollowers()
	if valid {
		vfCover("valid")
		vfAssert(p != nil && p.IsXMLSchemaBoolean(), "boolean-not-read")
		if p != nil && p.IsXMLSchemaBoolean() {
			vfAssert(p.Get() == want, "boolean-value-differs")
		}
	} else {
		vfCover("invalid")
		vfAssert(p == nil || !p.IsXMLSchemaBoolean(), "non-boolean-number-read-as-boolean")
	}
	vfCover("end")
}

// xsd:float (latitude on Place)
func VfC12_Lit_Float() {
	f := vfFloat("f")
	vfAssume(f == f, "not NaN (JSON has no NaN)")
	val := vfC12Decode("Place", "latitude", f)
	if val == nil {
		return
	}
	p := val.(vocab.ActivityStreamsPlace).GetActivityStreamsLatitude()
	vfAssert(p != nil && p.IsXMLSchemaFloat(), "number-not-read-as-float")
	if p != nil && p.IsXMLSchemaFloat() {
		vfAssert(p.Get() == f, "float-value-differs")
	}
	vfCover("end")
}

// string-like kinds: xsd:string (content), rfc2045 (mediaType), bcp47 (hreflang), rfc5988 (rel):
// a plain text (no scheme) denotes itself; a text with a scheme is an IRI
func VfC12_Lit_Strings() {
	s := vfString("s")
	isText := !vfContains(s, ":")
	switch vfChoose("which", 4) {
	case 0:
		val := vfC12Decode("Note", "content", s)
		if val == nil {
			return
		}
		p := val.(vocab.ActivityStreamsNote).GetActivityStreamsContent()
		vfAssert(p != nil && p.Len() == 1, "content-not-one-element")
		if p != nil && p.Len() == 1 && isText {
			vfCover("text")
			vfAssert(p.At(0).IsXMLSchemaString() && p.At(0).GetXMLSchemaString() == s, "string-value-differs")
		}
	case 1:
		val := vfC12Decode("Note", "mediaType", s)
		if val == nil {
			return
		}
		p := val.(vocab.ActivityStreamsNote).GetActivityStreamsMediaType()
		if p != nil && isText {
			vfCover("text")
			vfAssert(p.IsRFCRfc2045() && p.Get() == s, "media-type-value-differs")
		}
	case 2:
		val := vfC12Decode("Link", "hreflang", s)
		if val == nil {
			return
		}
		p := val.(vocab.ActivityStreamsLink).GetActivityStreamsHreflang()
		if p != nil && isText {
			vfCover("text")
			vfAssert(p.IsRFCBcp47() && p.Get() == s, "language-tag-value-differs")
		}
	case 3:
		val := vfC12Decode("Link", "rel", s)
		if val == nil {
			return
		}
		p := val.(vocab.ActivityStreamsLink).GetActivityStreamsRel()
		if p != nil && p.Len() == 1 && isText {
			vfCover("text")
			vfAssert(p.At(0).IsRFCRfc5988() && p.At(0).Get() == s, "rel-value-differs")
		}
	}
	vfCover("end")
}

// rdf:langString: the Map spelling holds one text per language tag
func VfC12_Lit_LangString() {
	k1, k2 := vfString("lang1"), vfString("lang2")
	v1, v2 := vfString("text1"), vfString("text2")
	vfAssume(k1 != k2, "two different language tags")
	val := vfC12Decode("Note", "nameMap", map[string]interface{}{k1: v1, k2: v2})
	if val == nil {
		return
	}
	p := val.(vocab.ActivityStreamsNote).GetActivityStreamsName()
	vfAssert(p != nil && p.Len() == 1 && p.At(0).IsRDFLangString(), "language-map-not-read")
	if p != nil && p.Len() == 1 && p.At(0).IsRDFLangString() {
		m := p.At(0).GetRDFLangString()
		vfAssert(len(m) == 2 && m[k1] == v1 && m[k2] == v2, "language-map-differs")
		vfAssert(p.At(0).HasLanguage(k1) && p.At(0).GetLanguage(k2) == v2, "language-accessors-differ")
	}
	vfCover("end")
}

// xsd:dateTime: RFC 3339 first, then the minute-precision layout, on the given text
func VfC12_Lit_DateTime() {
	s := vfString("s")
	vfAssume(!vfContains(s, ":") || true, "any text")
	val := vfC12Decode("Note", "published", s)
	if val == nil {
		return
	}
	p := val.(vocab.ActivityStreamsNote).GetActivityStreamsPublished()
	want, err := time.Parse(time.RFC3339, s)
	if err != nil {
		want, err = time.Parse("2006-01-02T15:04Z07:00", s)
	}
	if err == nil {
		vfCover("instant")
		// (a text with a scheme is taken for an IRI first: "any property also admits an IRI")
		if p != nil && !p.IsIRI() {
			vfAssert(p.IsXMLSchemaDateTime() && vfTimeEq(p.Get(), want), "instant-differs-from-the-lexical-form")
		}
	} else {
		vfCover("not-an-instant")
		vfAssert(p == nil || !p.IsXMLSchemaDateTime(), "text-that-is-no-timestamp-read-as-an-instant")
	}
	vfCover("end")
}

// xsd:anyURI (href on Link): an absolute IRI denotes itself
func VfC12_Lit_AnyURI() {
	u := vfIRI("u")
	val := vfC12Decode("Link", "href", u)
	if val == nil {
		return
	}
	p := val.(vocab.ActivityStreamsLink).GetActivityStreamsHref()
	vfAssert(p != nil && p.IsXMLSchemaAnyURI() && p.Get() != nil && p.Get().String() == u, "uri-value-differs")
	vfCover("end")
}

// xsd:duration: 365-day years and 30-day months (concrete lexical samples: the decoder's
// regular-expression scan of a symbolic text is outside the engine's model)
func VfC12_Lit_Duration() {
	samples := []struct {
		s string
		d time.Duration
	}{
		{"PT2H", 2 * time.Hour}, {"P1Y", 365 * 24 * time.Hour}, {"P1M", 30 * 24 * time.Hour}, {"P14M", 14 * 30 * 24 * time.Hour},
		{"P1Y2M3DT4H5M6S", (365+60+3)*24*time.Hour + 4*time.Hour + 5*time.Minute + 6*time.Second}, {"-P1D", -24 * time.Hour}, {"PT90S", 90 * time.Second},
	}
	smp := samples[vfChoose("sample", len(samples))]
	val := vfC12Decode("Note", "duration", smp.s)
	if val == nil {
		return
	}
	p := val.(vocab.ActivityStreamsNote).GetActivityStreamsDuration()
	vfAssert(p != nil && p.IsXMLSchemaDuration() && p.Get() == smp.d, "duration-differs-from-the-lexical-form")
	vfCover("end")
}
