//go:build verif

package streams

// C18 support: the plain-list / single-slot model the generated harnesses compare with.

import (
	"net/url"

	"github.com/go-fed/activity/streams/vocab"
)

// one element of the model: kind 0 = IRI (key = IRI text), kind k>0 = the k-th sampled value kind
// (key = id of the value for type kinds, text for URI kinds, "" for literals)
type vfElem struct {
	kind int
	key  string
}

func vfWithID(t vocab.Type, id *url.URL) vocab.Type {
	p := NewJSONLDIdProperty()
	p.Set(id)
	t.SetJSONLDId(p)
	return t
}

func vfTypeID(t vocab.Type) string {
	if t == nil || t.GetJSONLDId() == nil || t.GetJSONLDId().Get() == nil {
		return "<no-id>"
	}
	return t.GetJSONLDId().Get().String()
}

// vfSerID: the id of a serialised value (map with "id") or the string itself.
func vfSerID(v interface{}) string {
	switch x := v.(type) {
	case string:
		return x
	case map[string]interface{}:
		s, _ := x["id"].(string)
		return s
	}
	return "<?>"
}
