//go:build verif

package PKG

// Harness API of symgo (DESIGN §3.3).  Inside the engine every function in
// this file whose name is in the engine's intrinsic table is intercepted by
// name and its body below is NOT executed; the bodies are the *native*
// implementation used when a counterexample is replayed with `go test`:
// they read the tape (VF_TAPE) written by the engine.

import (
	"crypto/sha256"
	"encoding/base64"
	"encoding/hex"
	"encoding/json"
	"fmt"
	"io"
	"math"
	"net/url"
	"os"
	"strings"
	"sync"
	"time"
)

var vfLibMu sync.Mutex // guards the tape cursors and result lists (replays of concurrent harnesses)

type vfTapeT struct {
	Harness string                 `json:"harness"`
	Values  map[string]interface{} `json:"tape"`
	Label   string                 `json:"label"`
	Kind    string                 `json:"kind"`
	Params  map[string]int         `json:"params"`
}

var (
	vfTape     vfTapeT
	vfOcc      = map[string]int{}
	vfFailed   []string
	vfAssumeKO []string
	vfMissing  []string
	vfParams   = map[string]int{}
)

func vfLoadTape(path string) error {
	b, err := os.ReadFile(path)
	if err != nil {
		return err
	}
	vfTape = vfTapeT{}
	vfOcc = map[string]int{}
	vfFailed, vfAssumeKO, vfMissing = nil, nil, nil
	vfSchedPos, vfSchedBroken = 0, false
	return json.Unmarshal(b, &vfTape)
}

func vfNext(tag string) (interface{}, bool) {
	vfLibMu.Lock()
	defer vfLibMu.Unlock()
	k := vfOcc[tag]
	vfOcc[tag] = k + 1
	key := fmt.Sprintf("%s#%d", tag, k)
	v, ok := vfTape.Values[key]
	if !ok {
		vfMissing = append(vfMissing, key)
	}
	return v, ok
}

func vfEngine() bool { return false }

func vfBool(tag string) bool {
	v, _ := vfNext(tag)
	b, _ := v.(bool)
	return b
}

func vfInt(tag string, lo, hi int) int {
	v, ok := vfNext(tag)
	if !ok {
		return lo
	}
	f, _ := v.(float64)
	return int(f)
}

func vfString(tag string) string {
	v, _ := vfNext(tag)
	s, _ := v.(string)
	return s
}

func vfFloat(tag string) float64 {
	v, _ := vfNext(tag)
	switch x := v.(type) {
	case float64:
		return x
	case map[string]interface{}:
		if h, ok := x["f64bits"].(string); ok {
			b, _ := hex.DecodeString(h)
			var u uint64
			for _, c := range b {
				u = u<<8 | uint64(c)
			}
			return math.Float64frombits(u)
		}
	}
	return 0
}

var vfMissingN int

func vfIRI(tag string) string {
	v, ok := vfNext(tag)
	if !ok {
		// beyond the recorded run (e.g. a non-terminating recursion): keep producing fresh ids
		vfMissingN++
		return fmt.Sprintf("https://missing.example/%s/%d", tag, vfMissingN)
	}
	s, _ := v.(string)
	return s
}

func vfURL(tag string) *url.URL {
	u, err := url.Parse(vfIRI(tag))
	if err != nil {
		panic("vfURL: " + err.Error())
	}
	return u
}

func vfChoose(tag string, n int) int {
	v, _ := vfNext("choose:" + tag)
	f, _ := v.(float64)
	return int(f)
}

func vfFault(site string) bool {
	v, _ := vfNext("fault:" + site)
	b, _ := v.(bool)
	return b
}

func vfAssume(c bool, label string) {
	if !c {
		vfAssumeKO = append(vfAssumeKO, label)
		panic(vfAssumeFailed{label})
	}
}

type vfAssumeFailed struct{ label string }

func vfAssert(c bool, label string) {
	if !c {
		vfLibMu.Lock()
		vfFailed = append(vfFailed, label)
		vfLibMu.Unlock()
	}
}

func vfCover(label string)  {}
func vfNote(note string)    {}
func vfAllowPanic(b bool)   {}
func vfHangCheck(b bool)    {}
func vfOpaqueItoa(b bool)   {}
func vfYield()              {}
func vfThreads(bound int)   {}

// ---- concurrency (replay side).  The engine explores interleavings at scheduling points; the
// recorded order in which threads passed their vfGate points is re-imposed here on real goroutines.

var (
	vfSchedMu     sync.Mutex
	vfSchedPos    int
	vfSchedBroken bool
	vfAtomicMu    sync.Mutex
)

func vfSchedule() []interface{} {
	l, _ := vfTape.Values["schedule"].([]interface{})
	return l
}

// vfGate blocks until the recorded schedule says this (kind,key) passes next; f runs before the
// following gate may be passed.  Past the end of the recorded schedule (or when the recorded order
// cannot be followed for 3 s) threads run freely.
func vfGate(kind, key string, f func()) {
	me := kind + ":" + key
	sched := vfSchedule()
	deadline := time.Now().Add(3 * time.Second)
	for {
		vfSchedMu.Lock()
		if vfSchedBroken || vfSchedPos >= len(sched) {
			break
		}
		if s, _ := sched[vfSchedPos].(string); s == me {
			vfSchedPos++
			break
		}
		if time.Now().After(deadline) {
			vfSchedBroken = true
			break
		}
		vfSchedMu.Unlock()
		time.Sleep(200 * time.Microsecond)
	}
	if f != nil {
		f()
	}
	vfSchedMu.Unlock()
}

// vfAwait blocks until cond() holds and then runs then() atomically with the test.
func vfAwait(cond func() bool, then func()) {
	for {
		vfAtomicMu.Lock()
		if cond() {
			then()
			vfAtomicMu.Unlock()
			return
		}
		vfAtomicMu.Unlock()
		time.Sleep(200 * time.Microsecond)
	}
}

// vfAtomic runs f under the harness' global mutex.
func vfAtomic(f func()) {
	vfAtomicMu.Lock()
	defer vfAtomicMu.Unlock()
	f()
}

func vfSameBytes(a, b []byte) bool { return string(a) == string(b) }

func vfCount(s string, list []string) int {
	n := 0
	for _, e := range list {
		if e == s {
			n++
		}
	}
	return n
}

func vfLog(a ...interface{}) { fmt.Println(a...) }

func vfParam(name string, def int) int {
	if v, ok := vfParams[name]; ok {
		return v
	}
	return def
}

func vfUFBool(name, arg string) bool {
	v, ok := vfTape.Values["uf:"+name+":"+arg]
	if !ok {
		vfMissing = append(vfMissing, "uf:"+name+":"+arg)
	}
	b, _ := v.(bool)
	return b
}

// vfUFDefault: for an argument the recorded run never asked about, continue with the
// value this function took most often in the recorded run.
func vfUFDefault(name string) (interface{}, bool) {
	count := map[string]int{}
	vals := map[string]interface{}{}
	prefix := "uf:" + name + ":"
	for k, v := range vfTape.Values {
		if len(k) > len(prefix) && k[:len(prefix)] == prefix {
			s := fmt.Sprint(v)
			count[s]++
			vals[s] = v
		}
	}
	best, bn := "", 0
	for s, n := range count {
		if n > bn || (n == bn && s < best) {
			best, bn = s, n
		}
	}
	if bn == 0 {
		return nil, false
	}
	return vals[best], true
}

func vfUFInt(name, arg string, lo, hi int) int {
	v, ok := vfTape.Values["uf:"+name+":"+arg]
	if !ok {
		vfMissing = append(vfMissing, "uf:"+name+":"+arg)
		if d, ok := vfUFDefault(name); ok {
			f, _ := d.(float64)
			return int(f)
		}
		return lo
	}
	f, _ := v.(float64)
	return int(f)
}

func vfUFIRI(name, arg string) string {
	v, ok := vfTape.Values["uf:"+name+":"+arg]
	if !ok {
		vfMissing = append(vfMissing, "uf:"+name+":"+arg)
		return "https://missing.example/uf/" + name
	}
	s, _ := v.(string)
	return s
}

func vfAnd(a, b bool) bool     { return a && b }
func vfOr(a, b bool) bool      { return a || b }
func vfNot(a bool) bool        { return !a }
func vfImplies(a, b bool) bool { return !a || b }
func vfIff(a, b bool) bool     { return a == b }
func vfStrEq(a, b string) bool { return a == b }
func vfStrIn(s string, list []string) bool {
	for _, e := range list {
		if e == s {
			return true
		}
	}
	return false
}
func vfSymbolic(v interface{}) bool { return false }
func vfIndex(tag string, n int) int {
	i := vfInt(tag, 0, n-1)
	if i < 0 || i >= n {
		vfAssume(false, "vfIndex out of range")
	}
	return i
}
func vfDistinct(l []string) {
	for i := range l {
		for j := i + 1; j < len(l); j++ {
			if l[i] == l[j] {
				vfAssume(false, "vfDistinct")
			}
		}
	}
}
func vfContains(s, sub string) bool { return strings.Contains(s, sub) }

func vfMarshal(v interface{}) []byte {
	b, err := json.Marshal(v)
	if err != nil {
		panic("vfMarshal: " + err.Error())
	}
	return b
}

func vfGarbled() []byte { return []byte("{not json") }

func vfTree(b []byte) interface{} {
	var v interface{}
	if err := json.Unmarshal(b, &v); err != nil {
		return nil
	}
	return v
}

func vfDigest(b []byte) string {
	sum := sha256.Sum256(b)
	return base64.StdEncoding.EncodeToString(sum[:])
}

func vfTime(tag string) time.Time {
	inst := vfInt(tag+".instant", 0, 0)
	zone := vfInt(tag+".zone", 0, 0)
	return time.Unix(int64(inst), 0).In(time.FixedZone("", zone*60))
}

func vfTimeEq(a, b time.Time) bool               { return a.Equal(b) }
func vfFormatTime(t time.Time, layout string) string { return t.Format(layout) }

// vfBody is a request body over a byte handle.
type vfBody struct {
	raw    []byte
	off    int
	closed int
}

func (b *vfBody) VfReadAll() ([]byte, error) { return b.raw, nil }
func (b *vfBody) Read(p []byte) (int, error) {
	if b.off >= len(b.raw) {
		return 0, io.EOF
	}
	n := copy(p, b.raw[b.off:])
	b.off += n
	return n, nil
}
func (b *vfBody) Close() error { b.closed++; return nil }
