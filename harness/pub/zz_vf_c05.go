//go:build verif

package pub

// C05: outbox posts are identified, normalised, stored, then delivered.
// C03: hidden recipients (bto/bcc) never leave the server.

import (
	"net/url"

	"github.com/go-fed/activity/streams/vocab"
)

// build a Create (or a bare Note when bare) with nobj embedded Notes and an address pattern
func vfC05Build(o *vfOutbox, bare bool, nobj int) {
	pat := vfAddrPatterns[vfChoose("pattern", vfParam("patterns", len(vfAddrPatterns)))]
	if o.cross {
		pat = [][2]int{{0, 1 | 4 | 16}, {2, 1 | 2 | 4 | 8}, {0, 31}}[vfChoose("cross.pattern", vfParam("crosspats", 3))]
	}
	if bare {
		o.tree = vfDoc("Note", "content", "hello")
		if vfChoose("id-and-published", 2) == 1 {
			o.tree["id"] = vfIRI("note.id")
			o.tree["published"] = "2020-01-02T03:04:05Z"
		}
		o.actAddr = o.addr(o.tree, pat[0]|pat[1], "note", nil)
		o.typ = "Note"
		if vfChoose("attributed", 2) == 1 {
			// a bare object attributed to somebody who may or may not be the outbox owner
			s := vfIRI("obj.attributedTo")
			o.tree["attributedTo"] = s
			o.objAttr = [][]string{{s}}
		}
		return
	}
	o.isAct = true
	o.typ = "Create"
	o.tree = vfDoc("Create")
	nact := 1 + vfChoose("nactors", 2)
	var al []interface{}
	for i := 0; i < nact; i++ {
		s := vfIRI("act.actor")
		al = append(al, s)
		o.actActor = append(o.actActor, s)
		o.fresh = append(o.fresh, s)
	}
	o.tree["actor"] = vfScalarOrList(al)
	o.actAddr = o.addr(o.tree, pat[0], "act", nil)
	var objs []interface{}
	for i := 0; i < nobj; i++ {
		n := map[string]interface{}{"type": "Note", "content": "hello"}
		if i == 0 {
			o.objAddr = append(o.objAddr, o.addr(n, pat[1], "obj", &o.actAddr))
		} else {
			// further objects carry the first object's recipients
			for pi, pn := range vfAddrProps {
				if len(o.objAddr[0][pi]) > 0 {
					n[pn] = o.objAddr[0][pi][0]
				}
			}
			o.objAddr = append(o.objAddr, o.objAddr[0])
		}
		var attr []string
		if vfChoose("attributed", 2) == 1 {
			// attributed to somebody who may or may not be an actor of the Create (solver-decided)
			s := vfIRI("obj.attributedTo")
			o.freshB = append(o.freshB, s)
			n["attributedTo"] = s
			attr = []string{s}
		}
		o.objAttr = append(o.objAttr, attr)
		objs = append(objs, n)
	}
	o.tree["object"] = vfScalarOrList(objs)
}

func vfAttrOf(t vocab.Type) []string {
	var out []string
	if v, ok := t.(attributedToer); ok && v.GetActivityStreamsAttributedTo() != nil {
		p := v.GetActivityStreamsAttributedTo()
		for i := p.Begin(); i != p.End(); i = i.Next() {
			id, err := ToId(i)
			if err != nil {
				out = append(out, "<err>")
			} else {
				out = append(out, vfS(id))
			}
		}
	}
	return out
}

func vfActorsOf(t vocab.Type) []string {
	var out []string
	if v, ok := t.(actorer); ok && v.GetActivityStreamsActor() != nil {
		p := v.GetActivityStreamsActor()
		for i := p.Begin(); i != p.End(); i = i.Next() {
			id, err := ToId(i)
			if err != nil {
				out = append(out, "<err>")
			} else {
				out = append(out, vfS(id))
			}
		}
	}
	return out
}

// ordering / identity / outbox clauses common to every accepted post
func (o *vfOutbox) c05Common() {
	w := o.w
	// after a failed persistence step nothing may be delivered, whatever the request reports
	failedAt := -1
	for i, e := range w.log {
		if e.failed && failedAt < 0 && (e.kind == "db.Create" || e.kind == "db.SetOutbox" || e.kind == "db.Update") {
			failedAt = i
		}
	}
	if failedAt >= 0 {
		vfCover("persistence-failed")
		for i, e := range w.log {
			if i > failedAt && (e.kind == "tp.BatchDeliver" || e.kind == "tp.Deliver") {
				vfAssert(false, "delivered-after-a-persistence-step-failed")
			}
		}
		vfAssert(o.err != nil, "failed-persistence-step-not-reported-by-the-request")
	}
	if o.err != nil || !o.handled {
		return
	}
	vfCover("accepted")
	vfAssert(len(w.newIDs) >= 1, "no-fresh-id-requested")
	if len(w.newIDs) == 0 {
		return
	}
	actID := w.newIDs[0].String()
	// the activity is stored, with the fresh id
	storedAct := 0
	lastPersist, firstDeliver := -1, -1
	for i, e := range w.log {
		switch e.kind {
		case "db.Create":
			if e.id == actID {
				storedAct++
			}
			lastPersist = i
		case "db.SetOutbox", "db.Update":
			lastPersist = i
		case "tp.BatchDeliver", "tp.Deliver":
			if firstDeliver < 0 {
				firstDeliver = i
			}
		}
	}
	vfAssert(storedAct == 1, "activity-not-stored-exactly-once-under-its-fresh-id")
	so := w.events("db.SetOutbox")
	vfAssert(len(so) == 1, "outbox-not-written-exactly-once")
	if len(so) == 1 {
		got := vfItemIDs(so[0].val)
		want := append([]string{actID}, o.preOutbox...)
		vfAssert(vfSeqEq(got, want), "outbox-is-not-new-id-followed-by-previous-entries")
	}
	if firstDeliver >= 0 {
		vfAssert(lastPersist < firstDeliver, "delivered-before-persistence-finished")
	}
	if !o.viaSend {
		vfAssert(len(o.rw.codes) == 1 && o.rw.codes[0] == 201, "accepted-post-not-201")
		vfAssert(o.rw.hdr.Get("Location") == actID, "location-is-not-the-activity-id")
	} else if o.sendRes != nil {
		vfAssert(vfIdOf(o.sendRes) == actID, "send-result-id-is-not-the-stored-id")
	}
	if o.fed && o.typ != "Block" {
		vfAssert(w.count("tp.BatchDeliver") == 1, "federating-post-not-delivered-once")
	}
	if !o.fed {
		vfAssert(w.count("tp.BatchDeliver") == 0, "delivered-although-federation-is-disabled")
	}
}

// the stored activity (JSON snapshot taken when Database.Create was called)
func (o *vfOutbox) storedActivity() map[string]interface{} {
	if len(o.w.newIDs) == 0 {
		return nil
	}
	actID := o.w.newIDs[0].String()
	for _, e := range o.w.events("db.Create") {
		if e.id == actID {
			return e.snap
		}
	}
	return nil
}

// C03 clause on everything handed to the transport
func (o *vfOutbox) c03Payloads(hidden []string) {
	w := o.w
	for _, e := range w.log {
		if e.kind != "tp.BatchDeliver" && e.kind != "tp.Deliver" {
			continue
		}
		vfCover("payload")
		tree := vfTree(e.bytes)
		vfAssert(!vfJSONHasKey(tree, "bto") && !vfJSONHasKey(tree, "bcc"), "hidden-recipients-on-delivered-activity")
		for _, obj := range vfObjectsOf(tree) {
			vfAssert(!vfJSONHasKey(obj, "bto") && !vfJSONHasKey(obj, "bcc"), "hidden-recipients-on-delivered-object")
		}
		if e.kind == "tp.BatchDeliver" && o.err == nil {
			for _, h := range hidden {
				vfAssert(vfOr(vfStrIn(vfUFIRI("inboxOf", h), e.ids), vfStrEq(vfUFIRI("inboxOf", h), vfS(w.senderInbox()))), "hidden-recipient-did-not-receive-the-delivery")
			}
		}
	}
}

func (w *vfWorld) senderInbox() *url.URL {
	for _, st := range w.store {
		if st.id == w.actorIRI.String() {
			if ib, ok := st.val.(inboxer); ok && ib.GetActivityStreamsInbox() != nil {
				return ib.GetActivityStreamsInbox().GetIRI()
			}
		}
	}
	return nil
}

// ---------------------------------------------------------------------

func vfC05Create(bare bool, check int) { vfC05CreateX(bare, check, false) }

func vfC05CreateX(bare bool, check int, cross bool) {
	o := &vfOutbox{w: vfOutboxWorld(), social: true, cross: cross}
	o.fed = vfChoose("federating", 2) == 1
	nobj := 1 + vfChoose("nobj", vfParam("nobj", 2))
	if bare {
		nobj = 1
	}
	// faults_wide = 0: injected faults only on the single-object posts (the fault positions of a
	// second object repeat those of the first); 1: on every post
	o.w.faults = vfParam("faults", 0) > 0 && (nobj == 1 || vfParam("faults_wide", 0) > 0) && !cross
	vfC05Build(o, bare, nobj)
	o.distinctIDs()
	o.run()
	w := o.w
	var hidden []string
	hidden = append(hidden, o.actAddr[1]...)
	hidden = append(hidden, o.actAddr[3]...)
	for _, oa := range o.objAddr {
		hidden = append(hidden, oa[1]...)
		hidden = append(hidden, oa[3]...)
	}
	if check == 3 {
		// whatever the request reports: a payload that left the server must be stripped
		o.c03Payloads(hidden)
		vfCover("end")
		return
	}
	o.c05Common()
	if o.err != nil {
		vfCover("end")
		return
	}
	act := o.storedActivity()
	if act == nil {
		vfCover("end")
		return
	}
	vfAssert(act["type"] == "Create", "stored-activity-is-not-a-create")
	me := w.actorIRI.String()
	// embedded objects: fresh ids, stored
	objVals := vfObjectsOf(act)
	vfAssert(len(objVals) == nobj, "create-lost-or-gained-objects")
	vfAssert(len(w.newIDs) == 1+nobj, "not-one-fresh-id-per-activity-and-object")
	var objSnaps []map[string]interface{}
	for k := range objVals {
		if 1+k >= len(w.newIDs) {
			break
		}
		oid := w.newIDs[1+k].String()
		om, _ := objVals[k].(map[string]interface{})
		vfAssert(om != nil && om["id"] == oid, "create-object-without-its-own-fresh-id")
		n := 0
		var snap map[string]interface{}
		for _, e := range w.events("db.Create") {
			if e.id == oid {
				n++
				snap = e.snap
			}
		}
		vfAssert(n == 1, "create-object-not-stored-exactly-once")
		objSnaps = append(objSnaps, snap)
	}
	if bare {
		vfCover("wrapped")
		var battr []string
		for _, a := range o.objAttr {
			battr = append(battr, a...)
		}
		vfAssert(vfStrIn(me, vfJSONIDs(act["actor"])), "wrapping-create-actor-is-not-the-outbox-owner")
		vfAssert(vfSetEq(vfJSONIDs(act["actor"]), vfUnion([]string{me}, battr)), "wrapping-create-actors-are-not-the-owner-plus-attributedTo")
		for _, om := range objSnaps {
			if om != nil {
				vfAssert(vfSetEq(vfJSONIDs(om["attributedTo"]), vfUnion(battr, []string{me})), "wrapped-object-attributedTo-is-not-attributedTo-plus-owner")
			}
		}
		for pi, pn := range vfAddrProps {
			vfAssert(vfSetEq(vfJSONIDs(act[pn]), o.actAddr[pi]), "wrapping-create-did-not-copy-"+pn)
		}
		if _, has := o.tree["published"]; has {
			vfAssert(act["published"] == "2020-01-02T03:04:05Z", "wrapping-create-did-not-copy-published")
		}
	} else {
		vfCover("normalised")
		var allAttr []string
		for _, a := range o.objAttr {
			allAttr = append(allAttr, a...)
		}
		vfAssert(vfSetEq(vfJSONIDs(act["actor"]), vfUnion(o.actActor, allAttr)), "create-actors-are-not-actors-plus-attributedTo")
		for k, om := range objSnaps {
			if om != nil && k < len(o.objAttr) {
				vfAssert(vfSetEq(vfJSONIDs(om["attributedTo"]), vfUnion(o.objAttr[k], o.actActor)), "object-attributedTo-is-not-attributedTo-plus-actors")
			}
		}
		for pi, pn := range vfAddrProps {
			all := append([]string{}, o.actAddr[pi]...)
			for _, oa := range o.objAddr {
				all = append(all, oa[pi]...)
			}
			vfAssert(vfSetEq(vfJSONIDs(act[pn]), all), "activity-"+pn+"-is-not-the-union")
			for k, om := range objSnaps {
				if om != nil && k < len(o.objAddr) {
					vfAssert(vfSetEq(vfJSONIDs(om[pn]), vfUnion(o.objAddr[k][pi], o.actAddr[pi])), "object-"+pn+"-did-not-gain-the-activity's")
				}
			}
		}
	}
	vfCover("end")
}

func VfC05_Create()     { vfC05Create(false, 5) }

// the same recipient may appear under several addressing properties of the objects
func VfC05_CreateCross() { vfC05CreateX(false, 5, true) }
func VfC05_BareObject() { vfC05Create(true, 5) }
func VfC03_Create()     { vfC05Create(false, 3) }
func VfC03_BareObject() { vfC05Create(true, 3) }

// other activity types: identity / store / outbox / deliver ordering (and C03 on the payload)
func vfC05Other(typ string, check int) {
	o := &vfOutbox{w: vfOutboxWorld()}
	switch vfChoose("protocols", 3) {
	case 0:
		o.social, o.fed = true, true
	case 1:
		o.social = true
	case 2:
		o.fed = true
		o.viaSend = true
	}
	o.w.faults = vfParam("faults", 0) > 0
	o.w.remote = o.w.vfRemoteDefault
	a := vfActivity(typ, 1, 1, 1, "Note")
	o.tree = a.tree
	o.typ = typ
	o.isAct = true
	pat := vfAddrPatterns[vfChoose("pattern", vfParam("patterns", len(vfAddrPatterns)))]
	o.actAddr = o.addr(o.tree, pat[0], "act", nil)
	o.fresh = append(o.fresh, a.actors...)
	o.fresh = append(o.fresh, a.objects...)
	var hidden []string
	hidden = append(hidden, o.actAddr[1]...)
	hidden = append(hidden, o.actAddr[3]...)
	if obj, ok := o.tree["object"].(map[string]interface{}); ok {
		// recipients hidden on the embedded object must be stripped too; only the
		// activity's own bto/bcc are delivery targets of a non-normalised activity
		o.addr(obj, pat[1], "obj", nil)
	}
	o.distinctIDs()
	o.run()
	if check == 3 {
		// whatever the request reports: a payload that left the server must be stripped
		o.c03Payloads(hidden)
	} else {
		o.c05Common()
	}
	vfCover("end")
}

func VfC05_Other_Like()   { vfC05Other("Like", 5) }
func VfC05_Other_Follow() { vfC05Other("Follow", 5) }
func VfC05_Other_Update() { vfC05Other("Update", 5) }
func VfC05_Other_Listen() { vfC05Other("Listen", 5) }
func VfC03_Other_Like()   { vfC05Other("Like", 3) }
func VfC03_Other_Update() { vfC05Other("Update", 3) }
func VfC03_Other_Listen() { vfC05Other("Listen", 3) }
func VfC03_Other_Create() { vfC05Other("Create", 3) }

// --- C03: the ActivityStreams GET handler clears bto/bcc at any 'object' depth
func VfC03_Handler() {
	w := vfNewWorld()
	w.now = vfTime("now")
	types := []string{"Create", "Offer", "Note", "Relationship", "Tombstone", "Announce"}
	depth := 1 + vfChoose("depth", vfParam("hdepth", 3))
	hideAt := vfChoose("hide-at", depth)
	var inner map[string]interface{}
	for lvl := depth - 1; lvl >= 0; lvl-- {
		t := types[vfChoose("type", len(types))]
		n := map[string]interface{}{"type": t, "id": vfIRI("val.id")}
		if lvl == hideAt {
			switch vfChoose("hidden", 3) {
			case 0:
				n["bto"] = vfIRI("hidden")
			case 1:
				n["bcc"] = vfIRI("hidden")
			case 2:
				n["bto"] = vfIRI("hidden")
				n["bcc"] = []interface{}{vfIRI("hidden"), vfIRI("hidden")}
			}
		}
		if inner != nil {
			n["object"] = inner
		}
		inner = n
	}
	inner["@context"] = vfAS
	stored := vfToType(inner)
	w.store = append(w.store, vfStored{id: w.inboxIRI.String(), val: stored})
	rw := vfNewWriter(w)
	req := vfRequest("GET", "", vfCT, w.inboxIRI, nil)
	h := NewActivityStreamsHandler(&vfDB{w: w}, &vfClock{w: w})
	handled, err := h(vfCtx(), rw, req)
	vfAssert(handled && err == nil, "handler-failed")
	vfAssert(len(rw.bodies) == 1, "handler-did-not-write-one-body")
	if len(rw.bodies) == 1 {
		vfAssert(!vfHiddenAnywhere(vfTree(rw.bodies[0]), 5), "served-body-contains-bto-or-bcc")
	}
	vfCover("end")
}

// --- C03: the automatic Accept/Reject of a Follow that itself carries bto/bcc
func VfC03_AutoReply() {
	o := &vfOutbox{w: vfOutboxWorld()}
	w := o.w
	w.onFollow = OnFollowBehavior(1 + vfChoose("onfollow", 2))
	w.inboxSeen = func(string) bool { return false }
	w.exists = func(string) bool { return false }
	a := vfActivity("Follow", 1, 0, 0, "")
	a.tree["object"] = w.actorIRI.String()
	o.fresh = append(o.fresh, a.actors...)
	pat := vfAddrPatterns[vfChoose("pattern", len(vfAddrPatterns))]
	o.addr(a.tree, pat[0]|pat[1], "follow", nil)
	o.distinctIDs()
	actor := w.actor(false, true)
	rw := vfNewWriter(w)
	req := vfRequest("POST", vfCT, "", w.inboxIRI, vfMarshal(a.tree))
	_, err := actor.PostInbox(vfCtx(), rw, req)
	if err == nil {
		vfAssert(w.count("tp.BatchDeliver") >= 1, "auto-reply-not-delivered")
		o.c03Payloads(nil)
	}
	vfCover("end")
}
