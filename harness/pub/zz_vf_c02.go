//go:build verif

package pub

// C02: federated delivery reaches exactly the addressed inboxes.
//
// The remote web is a function of the IRI (uninterpreted functions):
//   rkind(iri): 0 actor with inbox, 1 Collection, 2 OrderedCollection, 3 unknown type,
//               4 garbled, 5 unreachable, 6 OrderedCollectionPage, 7 CollectionPage
//   nitems(iri) in 0..K, item_j(iri), remoteInbox(iri)
// so that fetching the same IRI twice gives the same document and cyclic or
// shared collections arise from aliasing decided by the solver.

import (
	"net/url"

	"github.com/go-fed/activity/streams"
)

const (
	vfRKActor = iota
	vfRKCollection
	vfRKOrdered
	vfRKUnknown
	vfRKGarbled
	vfRKUnreachable
	vfRKOrderedPage
	vfRKPage
)

type vfWeb struct {
	w        *vfWorld
	maxItems int
	kinds    int
}

func (web *vfWeb) kind(iri string) int { return vfUFInt("rkind", iri, 0, web.kinds-1) }
func (web *vfWeb) items(iri string) []string {
	n := vfUFInt("nitems", iri, 0, web.maxItems)
	var r []string
	for j := 0; j < n; j++ {
		r = append(r, vfUFIRI("item"+string(rune('0'+j)), iri))
	}
	return r
}
func (web *vfWeb) inbox(iri string) string { return vfUFIRI("remoteInbox", iri) }

func (web *vfWeb) doc(iri string) (interface{}, int) {
	switch web.kind(iri) {
	case vfRKActor:
		return vfDoc("Person", "id", iri, "inbox", web.inbox(iri)), 0
	case vfRKCollection, vfRKPage:
		t := "Collection"
		if web.kind(iri) == vfRKPage {
			t = "CollectionPage"
		}
		d := vfDoc(t, "id", iri)
		var l []interface{}
		for _, it := range web.items(iri) {
			l = append(l, it)
		}
		if len(l) > 0 {
			d["items"] = vfScalarOrList(l)
		}
		return d, 0
	case vfRKOrdered, vfRKOrderedPage:
		t := "OrderedCollection"
		if web.kind(iri) == vfRKOrderedPage {
			t = "OrderedCollectionPage"
		}
		d := vfDoc(t, "id", iri)
		var l []interface{}
		for _, it := range web.items(iri) {
			l = append(l, it)
		}
		if len(l) > 0 {
			d["orderedItems"] = vfScalarOrList(l)
		}
		return d, 0
	case vfRKUnknown:
		return vfDoc("VfUnknownType", "id", iri), 0
	case vfRKGarbled:
		return nil, 2
	}
	return nil, 1
}

func vfIsPublicRef(s string) bool {
	return vfOr(vfStrEq(s, "https://www.w3.org/ns/activitystreams#Public"), vfOr(vfStrEq(s, "as:Public"), vfStrEq(s, "Public")))
}

// reference resolver: expected Dereference sequence and expected inbox list (DFS order)
type vfRef struct {
	web     *vfWeb
	derefs  []string
	inboxes []string
}

func (r *vfRef) resolve(ids []string, depth, max int) {
	if max > 0 && depth >= max {
		return
	}
	for _, id := range ids {
		if vfIsPublicRef(id) {
			continue // Public is never dereferenced, wherever it is listed
		}
		r.derefs = append(r.derefs, id)
		switch r.web.kind(id) {
		case vfRKActor:
			r.inboxes = append(r.inboxes, r.web.inbox(id))
		case vfRKCollection, vfRKOrdered, vfRKOrderedPage, vfRKPage:
			r.resolve(r.web.items(id), depth+1, max)
		}
	}
}

// slices: 0 addressing (all actors stored, Public spellings, up to n3 recipients)
//         1 resolve (one recipient, full remote web incl. pages, items<=k, depth<=d)
//         2 mixed (two IRI recipients, stored or not, web without pages, <=1 item)
func vfC02(slice int) {
	w := vfNewWorld()
	web := &vfWeb{w: w, maxItems: vfParam("items", 2), kinds: 8}
	w.remote = web.doc
	n := 1
	forms := 4
	switch slice {
	case 0:
		n = vfParam("naddr", 3)
		w.maxDeliver = 1
	case 1:
		n = 1
		forms = 2
		if vfParam("pages", 1) == 0 {
			web.kinds = 6
		}
		w.maxDeliver = 1 + vfChoose("depth", vfParam("depth", 2))
	case 2:
		n = 2
		forms = 1
		web.kinds = 6
		web.maxItems = 1
		w.maxDeliver = 1 + vfChoose("depth", 2)
	}
	nrec := n
	if slice == 0 {
		nrec = 1 + vfChoose("nrec", n)
	}
	// the activity: a Like (no social normalisation), recipients spread over the five properties
	a := vfActivity("Like", 1, 1, 0, "")
	props := []string{"to", "bto", "cc", "bcc", "audience"}
	byProp := map[string][]interface{}{}
	var addressed []string // in the order prepare collects them
	type rec struct {
		prop int
		val  interface{}
		id   string
	}
	var recs []rec
	rot := vfChoose("prop", len(props))
	for i := 0; i < nrec; i++ {
		p := (rot + i*2) % len(props) // recipients spread over the five properties by rotation
		var val interface{}
		var id string
		switch vfChoose("form", forms) {
		case 0:
			id = vfIRI("rcpt")
			val = id
		case 1:
			id = vfIRI("rcpt")
			val = map[string]interface{}{"type": "Person", "id": id, "inbox": web.inbox(id)}
		case 2:
			id = "https://www.w3.org/ns/activitystreams#Public"
			val = id
		case 3:
			id = "as:Public"
			val = id
		}
		recs = append(recs, rec{p, val, id})
	}
	for pi, p := range props {
		for _, r := range recs {
			if r.prop == pi {
				byProp[p] = append(byProp[p], r.val)
				addressed = append(addressed, r.id)
			}
		}
		if l := byProp[p]; len(l) > 0 {
			a.tree[p] = vfScalarOrList(l)
		}
	}
	// stored inboxes: a function of the actor id; consistent with the actor's own document
	hasStored := func(actor string) bool {
		if slice == 0 {
			return true
		}
		if slice == 1 {
			return false
		}
		return vfUFBool("hasStoredInbox", actor)
	}
	w.storedInbox = func(actor string) *url.URL {
		if hasStored(actor) {
			u, _ := url.Parse(web.inbox(actor))
			return u
		}
		return nil
	}
	// the sender
	senderInbox := vfURL("sender.inbox")
	sender := streams.NewActivityStreamsPerson()
	sid := streams.NewJSONLDIdProperty()
	sid.Set(w.actorIRI)
	sender.SetJSONLDId(sid)
	ib := streams.NewActivityStreamsInboxProperty()
	ib.SetIRI(senderInbox)
	sender.SetActivityStreamsInbox(ib)
	w.store = append(w.store, vfStored{id: w.actorIRI.String(), val: sender})

	actor := w.actor(false, true)
	act := vfToType(a.tree).(Activity)
	_, err := actor.Send(vfCtx(), w.outboxIRI, act)

	// ---- reference
	var level0 []string
	var want []string
	for _, id := range addressed {
		if vfIsPublicRef(id) {
			continue
		}
		if hasStored(id) {
			if !vfStrIn(web.inbox(id), want) {
				want = append(want, web.inbox(id))
			}
			continue
		}
		level0 = append(level0, id)
	}
	// stored hits come first (in address order, with duplicates), then the dereferenced ones
	var stored []string
	for _, id := range addressed {
		if !vfIsPublicRef(id) && hasStored(id) {
			stored = append(stored, web.inbox(id))
		}
	}
	ref := &vfRef{web: web}
	ref.resolve(level0, 0, w.maxDeliver)
	all := append(append([]string{}, stored...), ref.inboxes...)
	var expect []string
	for _, ibx := range all {
		if ibx == senderInbox.String() {
			continue
		}
		if vfStrIn(ibx, expect) {
			continue
		}
		expect = append(expect, ibx)
	}
	// ---- assertions
	vfAssert(err == nil, "delivery-failed-although-unreachable-recipients-must-be-skipped")
	var derefs []string
	for _, e := range w.events("tp.Dereference") {
		derefs = append(derefs, e.id)
		vfAssert(vfNot(vfIsPublicRef(e.id)), "public-collection-dereferenced")
	}
	vfAssert(vfSeqEq(derefs, ref.derefs), "dereferences-differ-from-reference (depth limit / stored inboxes / recursion)")
	sent := w.events("tp.BatchDeliver")
	if err == nil {
		vfAssert(len(sent) == 1, "payload-not-handed-over-exactly-once")
	}
	if len(sent) == 1 {
		got := sent[0].ids
		vfAssert(vfSeqEq(got, expect), "recipient-inboxes-differ-from-reference")
		for i := range got {
			vfAssert(got[i] != senderInbox.String(), "sender-inbox-among-recipients")
			for j := 0; j < i; j++ {
				vfAssert(got[i] != got[j], "duplicate-recipient-inbox")
			}
		}
	}
	vfCover("end")
}

func VfC02_Addressing() { vfC02(0) }
func VfC02_Resolve()    { vfC02(1) }
func VfC02_Mixed()      { vfC02(2) }
