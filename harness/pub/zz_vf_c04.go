//go:build verif

package pub

// C04: default inbox side effects do exactly what is documented, only to owned data.

import (
	"net/url"

	"github.com/go-fed/activity/streams/vocab"
)

// vfItemIDs lists the ids in items / orderedItems of a collection value.
func vfItemIDs(t vocab.Type) []string {
	var out []string
	if v, ok := t.(itemser); ok {
		if it := v.GetActivityStreamsItems(); it != nil {
			for i := it.Begin(); i != it.End(); i = i.Next() {
				id, err := ToId(i)
				if err != nil {
					out = append(out, "<err>")
				} else {
					out = append(out, vfS(id))
				}
			}
		}
		return out
	}
	if v, ok := t.(orderedItemser); ok {
		if it := v.GetActivityStreamsOrderedItems(); it != nil {
			for i := it.Begin(); i != it.End(); i = i.Next() {
				id, err := ToId(i)
				if err != nil {
					out = append(out, "<err>")
				} else {
					out = append(out, vfS(id))
				}
			}
		}
	}
	return out
}

func vfSeqEq(a, b []string) bool {
	if len(a) != len(b) {
		return false
	}
	r := true
	for i := range a {
		r = vfAnd(r, vfStrEq(a[i], b[i]))
	}
	return r
}

func vfURLStrings(us []string) []string { return us }

type vfC04 struct {
	w    *vfWorld
	a    *vfAct
	err  error
	typ  string
	mode int
}

// run one inbox POST of typ with nobj objects under callback configuration mode
func vfC04Run(typ string, objMode int, prep func(w *vfWorld, a *vfAct)) *vfC04 {
	w := vfNewWorld()
	w.defaultStore = true
	w.remote = w.vfRemoteDefault
	w.cbMode = vfChoose("cbmode", 3)
	w.inboxSeen = func(string) bool { return false }
	w.exists = func(string) bool { return false }
	w.faults = vfParam("faults", 0) > 0
	n := vfParam("nobj", 2)
	nobj := 1 + vfChoose("nobj", n)
	a := vfActivity(typ, 1, nobj, objMode, "Note")
	if prep != nil {
		prep(w, a)
	}
	actor := w.actor(false, true)
	rw := vfNewWriter(w)
	req := vfRequest("POST", vfCT, "", w.inboxIRI, vfMarshal(a.tree))
	_, err := actor.PostInbox(vfCtx(), rw, req)
	return &vfC04{w: w, a: a, err: err, typ: typ, mode: w.cbMode}
}

// defaultWrites: Database writes other than the inbox note and the record of the activity itself
func (c *vfC04) defaultWrites() []vfEvent {
	var r []vfEvent
	for _, e := range c.w.log {
		switch e.kind {
		case "db.Create":
			if e.val != nil && e.val.GetTypeName() == c.typ {
				continue // InboxForwarding records the federated activity itself
			}
			r = append(r, e)
		case "db.Update", "db.Delete":
			r = append(r, e)
		}
	}
	return r
}

// common clauses: 'other' replaces the default effect; the wrapped callback runs after it
func (c *vfC04) common() {
	w := c.w
	writes := c.defaultWrites()
	if c.mode == 2 {
		vfCover("other")
		vfAssert(len(writes) == 0 && w.count("tp.BatchDeliver") == 0, "default-effect-although-other-callback-supplied")
		if c.err == nil {
			vfAssert(w.count("app.other."+c.typ) == 1, "other-callback-not-invoked-once")
		}
	}
	if c.mode == 1 {
		vfCover("wrapped")
		idx := -1
		for i, e := range w.log {
			if e.kind == "app."+c.typ {
				idx = i
			}
		}
		if idx >= 0 {
			for i, e := range w.log {
				if i > idx && (e.kind == "db.Update" || e.kind == "db.Delete" || (e.kind == "db.Create" && e.val != nil && e.val.GetTypeName() != c.typ)) {
					vfAssert(false, "default-effect-after-the-wrapped-callback")
				}
			}
			for _, e := range writes {
				vfAssert(!e.failed, "wrapped-callback-ran-although-default-effect-failed")
			}
		}
	}
	if c.mode == 0 {
		vfCover("no-callback")
	}
}

// --- Create / Update / Delete
func vfC04CUD(typ string) {
	objMode := 2
	if typ == "Update" {
		objMode = 1 // Update needs wholly provided objects
	}
	c := vfC04Run(typ, objMode, func(w *vfWorld, a *vfAct) {
		// fetched objects are Notes carrying the requested id
		w.remote = func(iri string) (interface{}, int) { return vfDoc("Note", "id", iri), 0 }
	})
	c.common()
	if c.mode != 2 && c.err == nil {
		vfCover("applied")
		kind := map[string]string{"Create": "db.Create", "Update": "db.Update", "Delete": "db.Delete"}[typ]
		var got []string
		for _, e := range c.defaultWrites() {
			vfAssert(e.kind == kind, "unexpected-kind-of-write:"+e.kind)
			got = append(got, e.id)
		}
		vfAssert(vfSeqEq(got, c.a.objects), "writes-are-not-exactly-the-named-objects")
	}
	vfCover("end")
}

func VfC04_Create() { vfC04CUD("Create") }
func VfC04_Update() { vfC04CUD("Update") }
func VfC04_Delete() { vfC04CUD("Delete") }

// --- Like / Announce: activity id first in likes/shares of exactly the owned objects
func vfC04LikeAnnounce(typ string) {
	c := vfC04Run(typ, 2, func(w *vfWorld, a *vfAct) {
		w.likesKind = vfChoose("existing", 3) // 0 absent, 1 Collection, 2 OrderedCollection
		if w.likesKind != 0 {
			w.likesPre = vfChoose("existing.n", 2)
		}
		for _, o := range a.objects {
			vfAssume(vfOr(vfNot(vfUFBool("owns", o)), vfUFInt("storedKind", o, 0, 5) == 0), "owned liked/announced objects are stored as Notes (with the chosen likes/shares pre-state)")
		}
	})
	c.common()
	w := c.w
	if c.mode != 2 && c.err == nil {
		vfCover("applied")
		writes := c.defaultWrites()
		k := 0
		for _, o := range c.a.objects {
			if !vfUFBool("owns", o) {
				continue
			}
			if k >= len(writes) {
				vfAssert(false, "owned-object-not-updated")
				break
			}
			e := writes[k]
			k++
			vfAssert(e.kind == "db.Update" && vfStrEq(e.id, o), "update-is-not-of-the-owned-object")
			var col vocab.Type
			if typ == "Like" {
				if l, ok := e.val.(likeser); ok && l.GetActivityStreamsLikes() != nil {
					col = l.GetActivityStreamsLikes().GetType()
				}
			} else {
				if l, ok := e.val.(shareser); ok && l.GetActivityStreamsShares() != nil {
					col = l.GetActivityStreamsShares().GetType()
				}
			}
			ids := vfItemIDs(col)
			vfAssert(len(ids) >= 1 && vfStrEq(ids[0], c.a.id), "activity-id-not-at-the-front")
			vfAssert(len(ids) == 1+w.likesPre, "collection-lost-or-gained-other-entries")
		}
		vfAssert(k == len(writes), "write-to-an-object-this-server-does-not-own")
	}
	vfCover("end")
}

func VfC04_Like()     { vfC04LikeAnnounce("Like") }
func VfC04_Announce() { vfC04LikeAnnounce("Announce") }

// --- Add / Remove: only owned target collections change
func vfC04AddRemove(typ string) {
	c := vfC04Run(typ, 2, func(w *vfWorld, a *vfAct) {
		w.colItems = nil
		np := vfChoose("pre", 3)
		for i := 0; i < np; i++ {
			w.colItems = append(w.colItems, vfURL("target.pre"))
		}
		if vfParam("ntargets", 2) > 1 && vfChoose("ntargets", 2) == 1 {
			t2 := vfIRI("act.target")
			a.tree["target"] = []interface{}{a.targets[0], t2}
			a.targets = append(a.targets, t2)
		}
		// targets hold collections (ordered or not) when they are owned
		for _, t := range a.targets {
			k := vfUFInt("storedKind", t, 0, 5)
			vfAssume(vfOr(vfNot(vfUFBool("owns", t)), vfOr(k == 1, k == 2)), "owned targets are collections")
		}
	})
	c.common()
	w := c.w
	if c.mode != 2 && c.err == nil {
		vfCover("applied")
		writes := c.defaultWrites()
		var pre []string
		for _, u := range w.colItems {
			pre = append(pre, u.String())
		}
		k := 0
		for _, t := range c.a.targets {
			if !vfUFBool("owns", t) {
				continue
			}
			if k >= len(writes) {
				vfAssert(false, "owned-target-not-updated")
				break
			}
			e := writes[k]
			k++
			vfAssert(e.kind == "db.Update" && vfStrEq(e.id, t), "update-is-not-of-the-owned-target")
			got := vfItemIDs(e.val)
			if typ == "Add" {
				want := append(append([]string{}, pre...), c.a.objects...)
				vfAssert(vfSeqEq(got, want), "add-did-not-append-exactly-the-object-ids")
			} else {
				// reference: pre-state minus every entry equal to an object id
				j := 0
				okAll := true
				for _, p := range pre {
					if vfStrIn(p, c.a.objects) {
						continue
					}
					if j >= len(got) {
						okAll = false
						break
					}
					okAll = vfAnd(okAll, vfStrEq(got[j], p))
					j++
				}
				vfAssert(okAll && j == len(got), "remove-did-not-remove-exactly-the-object-ids")
			}
		}
		vfAssert(k == len(writes), "write-to-a-target-this-server-does-not-own")
	}
	vfCover("end")
}

func VfC04_Add()    { vfC04AddRemove("Add") }
func VfC04_Remove() { vfC04AddRemove("Remove") }

// --- Follow: auto accept / reject / nothing
func VfC04_Follow() {
	var nFollowers int
	c := vfC04Run("Follow", 2, func(w *vfWorld, a *vfAct) {
		w.onFollow = OnFollowBehavior(vfChoose("onfollow", 3))
		w.colItems = nil
		nFollowers = vfChoose("pre", 2)
		for i := 0; i < nFollowers; i++ {
			w.colItems = append(w.colItems, vfURL("followers.pre"))
		}
		w.storedInbox = func(actor string) *url.URL { return vfURL("inboxOf") }
	})
	c.common()
	w := c.w
	if c.mode == 2 || c.err != nil {
		vfCover("end")
		return
	}
	me := w.actorIRI.String()
	isMe := vfStrIn(me, c.a.objects)
	writes := c.defaultWrites()
	sent := w.events("tp.BatchDeliver")
	if w.onFollow == OnFollowDoNothing || !isMe {
		vfCover("nothing")
		vfAssert(len(writes) == 0, "follow-changed-the-store-without-auto-reply")
		vfAssert(len(sent) == 0, "follow-sent-something-without-auto-reply")
		vfCover("end")
		return
	}
	vfCover("auto-reply")
	if w.onFollow == OnFollowAutomaticallyAccept {
		vfAssert(len(writes) == 1 && writes[0].kind == "db.Update", "auto-accept-did-not-update-followers-once")
		if len(writes) == 1 {
			got := vfItemIDs(writes[0].val)
			var want []string
			for i := len(c.a.actors) - 1; i >= 0; i-- {
				want = append(want, c.a.actors[i])
			}
			for _, u := range w.colItems {
				want = append(want, u.String())
			}
			vfAssert(vfSeqEq(got, want), "followers-did-not-gain-exactly-the-following-actors")
		}
	} else {
		vfAssert(len(writes) == 0, "auto-reject-changed-followers")
	}
	vfAssert(len(sent) == 1, "auto-reply-not-delivered-once")
	if len(sent) == 1 {
		m, _ := vfTree(sent[0].bytes).(map[string]interface{})
		wantType := "Accept"
		if w.onFollow == OnFollowAutomaticallyReject {
			wantType = "Reject"
		}
		vfAssert(m != nil && m["type"] == wantType, "auto-reply-has-the-wrong-type")
		vfAssert(len(w.newIDs) >= 1 && m["id"] == w.newIDs[0].String(), "auto-reply-id-is-not-fresh")
		vfAssert(m["actor"] == me, "auto-reply-actor-is-not-the-inbox-owner")
		to := vfStrList(m["to"])
		vfAssert(vfSeqEq(to, c.a.actors), "auto-reply-not-addressed-to-the-following-actors")
		obj, _ := m["object"].(map[string]interface{})
		vfAssert(obj != nil && obj["type"] == "Follow" && obj["id"] == c.a.id, "auto-reply-object-is-not-the-follow")
	}
	vfCover("end")
}

// vfStrList normalises a JSON scalar-or-list of strings.
func vfStrList(v interface{}) []string {
	switch x := v.(type) {
	case string:
		return []string{x}
	case []interface{}:
		var r []string
		for _, e := range x {
			s, _ := e.(string)
			r = append(r, s)
		}
		return r
	}
	return nil
}
