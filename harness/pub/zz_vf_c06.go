//go:build verif

package pub

// C06: a federated peer cannot act beyond its authority.

import (
	"net/url"
)

func vfHost(s string) string {
	u, err := url.Parse(s)
	if err != nil || u == nil {
		return ""
	}
	return u.Host
}

func (w *vfWorld) mutations() int {
	return w.count("db.Update") + w.count("db.Delete") + w.count("db.Create")
}

// inbox POST through the whole stack, default (wrapped) callbacks, not seen before
func vfC06Post(w *vfWorld, tree map[string]interface{}) (bool, error, *vfWriter) {
	w.defaultStore = true
	if w.remote == nil {
		w.remote = w.vfRemoteDefault
	}
	w.cbMode = 1
	w.inboxSeen = func(string) bool { return false }
	actor := w.actor(false, true)
	rw := vfNewWriter(w)
	req := vfRequest("POST", vfCT, "", w.inboxIRI, vfMarshal(tree))
	h, err := actor.PostInbox(vfCtx(), rw, req)
	return h, err, rw
}

// --- Update / Delete: applied only if every object id has the activity id's host
func vfC06Origin(typ string) {
	w := vfNewWorld()
	n := vfParam("nobj", 2)
	nobj := 1 + vfChoose("nobj", n)
	a := vfActivity(typ, 1, nobj, 2, "Note")
	_, err, _ := vfC06Post(w, a.tree)
	sameHost := true
	for _, o := range a.objects {
		sameHost = vfAnd(sameHost, vfStrEq(vfHost(o), vfHost(a.id)))
	}
	applied := w.count("db.Update")+w.count("db.Delete") > 0
	if applied {
		vfCover("applied")
		vfAssert(sameHost, "update-or-delete-applied-across-origins")
	}
	if !sameHost {
		vfCover("cross-origin")
		vfAssert(err != nil, "cross-origin-update-or-delete-not-refused")
		vfAssert(w.mutations() == 0, "cross-origin-update-or-delete-changed-the-store")
	}
	vfCover("end")
}

func VfC06_Origin_Update() { vfC06Origin("Update") }
func VfC06_Origin_Delete() { vfC06Origin("Delete") }

// --- Accept: following grows only for a stored Follow of ours naming every accepting actor
func VfC06_Accept() {
	w := vfNewWorld()
	nact := 1 + vfChoose("nactors", vfParam("nactors", 2))
	a := vfActivity("Accept", nact, 0, 0, "")
	followID := vfIRI("follow.id")
	// the Follow as the peer presents it: embedded or by IRI (then fetched from the peer)
	peerActor := vfIRI("peer.follow.actor")
	peerObject := vfIRI("peer.follow.object")
	if vfChoose("follow.form", 2) == 0 {
		a.tree["object"] = map[string]interface{}{"type": "Follow", "id": followID, "actor": peerActor, "object": peerObject}
	} else {
		a.tree["object"] = followID
		w.remote = func(iri string) (interface{}, int) {
			if iri == followID {
				return vfDoc("Follow", "id", followID, "actor", peerActor, "object", peerObject), 0
			}
			return nil, 1
		}
	}
	// what is really stored under that id
	w.storedFollowN = 1 + vfChoose("stored.nobj", 2)
	h, err, _ := vfC06Post(w, a.tree)
	_ = h
	grew := false
	for i, e := range w.log {
		if e.kind == "db.Update" && i > 0 {
			for _, p := range w.log[:i] {
				if p.kind == "db.Following" {
					grew = true
				}
			}
		}
	}
	if grew {
		vfCover("following-updated")
		vfAssert(w.storedFollowSeen, "following-updated-without-a-stored-follow")
		vfAssert(vfStrEq(w.storedFollowActor, w.actorIRI.String()), "following-updated-for-a-follow-of-another-actor")
		for _, act := range a.actors {
			vfAssert(vfStrIn(act, w.storedFollowObjects), "following-updated-for-an-actor-the-follow-did-not-name")
		}
		vfAssert(err == nil, "following-updated-but-error-returned")
	} else {
		vfCover("refused-or-ignored")
		vfAssert(w.count("db.Update") == 0, "accept-changed-something-else")
	}
	vfCover("end")
}

// --- Undo: accepted only if every actor of each undone activity is an actor of the Undo
func VfC06_Undo() {
	w := vfNewWorld()
	nact := 1 + vfChoose("nactors", vfParam("nactors", 2))
	a := vfActivity("Undo", nact, 0, 0, "")
	undone := vfIRI("undone.id")
	nUndoneActors := 1 + vfChoose("undone.nactors", 2)
	var undoneActors []string
	var l []interface{}
	for i := 0; i < nUndoneActors; i++ {
		s := vfIRI("undone.actor")
		undoneActors = append(undoneActors, s)
		l = append(l, s)
	}
	if vfChoose("undone.form", 2) == 0 {
		a.tree["object"] = undone
	} else {
		// the copy the peer embeds need not be the truth: its actors are chosen independently
		var claimed []interface{}
		for i := 0; i < nUndoneActors; i++ {
			claimed = append(claimed, vfIRI("undone.claimed.actor"))
		}
		a.tree["object"] = map[string]interface{}{"type": "Like", "id": undone, "actor": vfScalarOrList(claimed)}
	}
	// the undone activity as its origin serves it - or the origin cannot be reached
	reachable := vfChoose("undone.reachable", 2) == 0
	w.remote = func(iri string) (interface{}, int) {
		if iri == undone && reachable {
			return vfDoc("Like", "id", undone, "actor", vfScalarOrList(l), "object", vfIRI("undone.object")), 0
		}
		return nil, 1
	}
	_, err, _ := vfC06Post(w, a.tree)
	covered := true
	for _, ua := range undoneActors {
		covered = vfAnd(covered, vfStrIn(ua, a.actors))
	}
	accepted := w.count("app.Undo") > 0
	if accepted {
		vfCover("accepted")
		vfAssert(reachable, "undo-accepted-although-the-undone-activity-could-not-be-verified")
		vfAssert(covered, "undo-accepted-without-covering-the-undone-actors")
	}
	if !reachable {
		vfCover("unverifiable")
		vfAssert(err != nil, "unverifiable-undo-not-refused")
	}
	if !covered {
		vfCover("not-covered")
		vfAssert(err != nil, "undo-of-foreign-activity-not-refused")
	}
	vfAssert(w.mutations() <= 1, "undo-changed-the-store") // (the activity itself is recorded by inbox forwarding)
	vfCover("end")
}

// --- Blocked is asked about the id of every actor (IRI or embedded) before any side effect
func VfC06_Blocked() {
	w := vfNewWorld()
	nact := 1 + vfChoose("nactors", vfParam("nactors", 2))
	a := vfActivity("Like", 0, 1, 0, "")
	var ids []string
	var l []interface{}
	for i := 0; i < nact; i++ {
		e, id := vfObjEntry("act.actor", "Person", 2)
		l = append(l, e)
		ids = append(ids, id)
	}
	a.tree["actor"] = vfScalarOrList(l)
	w.blockMode = vfChoose("block", 2)
	_, _, rw := vfC06Post(w, a.tree)
	vfAssert(w.blockedN == 1, "block-check-not-asked-exactly-once")
	if w.blockedN == 1 {
		vfAssert(len(w.blockedArg) == len(ids), "block-check-not-asked-about-every-actor")
		for i := range ids {
			if i < len(w.blockedArg) {
				vfAssert(vfStrEq(w.blockedArg[i], ids[i]), "block-check-asked-about-the-wrong-id")
			}
		}
	}
	for _, e := range w.log {
		if e.kind == "s2s.Blocked" {
			break
		}
		vfAssert(!vfSideEffectKind(e.kind), "side-effect-before-block-check:"+e.kind)
	}
	if w.blockMode == 1 {
		vfAssert(w.mutations() == 0 && w.count("db.SetInbox") == 0, "blocked-sender-changed-the-store")
		vfAssert(len(rw.codes) == 1 && rw.codes[0] == 403, "blocked-sender-not-403")
	}
	vfCover("end")
}
