//go:build verif

package pub

// Outbox scenarios shared by C03 (bto/bcc never leave the server), C05 (outbox
// posts are identified, normalised, stored, then delivered) and C16.

import (
	"net/url"

	"github.com/go-fed/activity/streams"
	"github.com/go-fed/activity/streams/vocab"
)

var vfAddrProps = []string{"to", "bto", "cc", "bcc", "audience"}

// address patterns: bit i of act/obj = property vfAddrProps[i] carries one recipient
var vfAddrPatterns = [][2]int{
	{0, 0},
	{1 | 8, 2 | 4 | 16},
	{2 | 8, 2 | 8},
	{31, 0},
	{2, 8},
	{0, 31},
	{31, 31},
}

type vfOutbox struct {
	w        *vfWorld
	rw       *vfWriter
	handled  bool
	err      error
	social   bool
	fed      bool
	tree     map[string]interface{}
	isAct    bool
	typ      string
	actAddr  [5][]string // initial recipients on the activity (or on the bare object)
	objAddr  [][5][]string
	objIDs   []string
	actActor []string
	objAttr  [][]string
	preOutbox []string
	sent     *vfAct
	viaSend  bool
	sendRes  Activity
	fresh    []string // recipient / actor IRIs of the activity level (pairwise distinct)
	freshB   []string // recipient IRIs of the object level (pairwise distinct; may alias the activity's for the same property)
	cross    bool     // object-level recipients may alias each other ACROSS addressing properties (the same IRI in to and cc)
}

// distinctIDs: the ids of the request are pairwise distinct and differ from the
// principal ids; so are their inboxes (aliasing between recipients is C02's subject).
func (o *vfOutbox) distinctIDs() {
	w := o.w
	all := append([]string{w.actorIRI.String(), w.inboxIRI.String(), w.outboxIRI.String(),
		"https://www.w3.org/ns/activitystreams#Public", "as:Public", "Public"}, o.fresh...)
	for _, u := range w.outboxItems {
		all = append(all, u.String())
	}
	vfDistinct(all)
	w.distinctPool = all
	if len(o.freshB) > 0 && o.cross {
		for _, f := range o.freshB {
			allB := []string{w.actorIRI.String(), w.inboxIRI.String(), w.outboxIRI.String(),
				"https://www.w3.org/ns/activitystreams#Public", "as:Public", "Public", f}
			for _, u := range w.outboxItems {
				allB = append(allB, u.String())
			}
			vfDistinct(allB)
		}
	} else if len(o.freshB) > 0 {
		allB := append([]string{w.actorIRI.String(), w.inboxIRI.String(), w.outboxIRI.String(),
			"https://www.w3.org/ns/activitystreams#Public", "as:Public", "Public"}, o.freshB...)
		for _, u := range w.outboxItems {
			allB = append(allB, u.String())
		}
		vfDistinct(allB)
	}
	var inboxes []string
	if si := w.senderInbox(); si != nil {
		inboxes = append(inboxes, si.String())
	}
	for _, f := range o.fresh {
		inboxes = append(inboxes, vfUFIRI("inboxOf", f))
	}
	vfDistinct(inboxes)
	if len(o.freshB) > 0 && !o.cross {
		inboxesB := []string{}
		if si := w.senderInbox(); si != nil {
			inboxesB = append(inboxesB, si.String())
		}
		for _, f := range o.freshB {
			inboxesB = append(inboxesB, vfUFIRI("inboxOf", f))
		}
		vfDistinct(inboxesB)
	}
}

// vfAddr puts one recipient on each property selected by mask.  With share != nil
// the entry re-uses (is literally) the other value's recipient for that property
// when it has one - overlapping recipient sets by construction.
func (o *vfOutbox) addr(tree map[string]interface{}, mask int, tag string, share *[5][]string) [5][]string {
	var r [5][]string
	for i, p := range vfAddrProps {
		if mask&(1<<uint(i)) != 0 {
			var id string
			id = vfIRI(tag + "." + p)
			if share != nil {
				// may or may not equal the other value's recipient for the SAME property
				// (overlapping recipient sets: decided by the solver); distinct from all others
				o.freshB = append(o.freshB, id)
				for j := range vfAddrProps {
					if j != i && len(share[j]) > 0 && !o.cross {
						vfDistinct([]string{id, share[j][0]})
					}
				}
			} else {
				o.fresh = append(o.fresh, id)
			}
			// half of the entries are written as embedded actors
			if i%2 == 1 {
				tree[p] = map[string]interface{}{"type": "Person", "id": id}
			} else {
				tree[p] = id
			}
			r[i] = []string{id}
		}
	}
	return r
}

// vfOutboxWorld: a world in which every actor has an application-stored inbox
// inboxOf(actor) (delivery resolution itself is C02's subject).
func vfOutboxWorld() *vfWorld {
	w := vfNewWorld()
	w.defaultStore = true
	w.cbMode = 1
	w.storedInbox = func(actor string) *url.URL {
		u, _ := url.Parse(vfUFIRI("inboxOf", actor))
		return u
	}
	sender := streams.NewActivityStreamsPerson()
	sid := streams.NewJSONLDIdProperty()
	sid.Set(w.actorIRI)
	sender.SetJSONLDId(sid)
	if vfParam("sender_may_lack_inbox", 0) == 0 || vfChoose("sender.inbox", 2) == 0 {
		ib := streams.NewActivityStreamsInboxProperty()
		ib.SetIRI(vfURL("sender.inbox"))
		sender.SetActivityStreamsInbox(ib)
	} else {
		// the sending actor's own document has no inbox (a publish-only actor)
		vfCover("sender-without-inbox")
	}
	w.store = append(w.store, vfStored{id: w.actorIRI.String(), val: sender})
	np := 2 * vfChoose("outbox.pre", 2) // arbitrary pre-state: empty (nil) or two entries
	if np > 0 {
		w.outboxItems = []*url.URL{}
	}
	for i := 0; i < np; i++ {
		w.outboxItems = append(w.outboxItems, vfURL("outbox.pre"))
	}
	return w
}

// vfIDsOf reads one of the five addressing properties of a value as id strings.
func vfIDsOf(t vocab.Type, prop int) []string {
	var out []string
	add := func(i IdProperty) {
		id, err := ToId(i)
		if err != nil {
			out = append(out, "<err>")
		} else {
			out = append(out, vfS(id))
		}
	}
	switch prop {
	case 0:
		if v, ok := t.(toer); ok && v.GetActivityStreamsTo() != nil {
			p := v.GetActivityStreamsTo()
			for i := p.Begin(); i != p.End(); i = i.Next() {
				add(i)
			}
		}
	case 1:
		if v, ok := t.(btoer); ok && v.GetActivityStreamsBto() != nil {
			p := v.GetActivityStreamsBto()
			for i := p.Begin(); i != p.End(); i = i.Next() {
				add(i)
			}
		}
	case 2:
		if v, ok := t.(ccer); ok && v.GetActivityStreamsCc() != nil {
			p := v.GetActivityStreamsCc()
			for i := p.Begin(); i != p.End(); i = i.Next() {
				add(i)
			}
		}
	case 3:
		if v, ok := t.(bccer); ok && v.GetActivityStreamsBcc() != nil {
			p := v.GetActivityStreamsBcc()
			for i := p.Begin(); i != p.End(); i = i.Next() {
				add(i)
			}
		}
	case 4:
		if v, ok := t.(audiencer); ok && v.GetActivityStreamsAudience() != nil {
			p := v.GetActivityStreamsAudience()
			for i := p.Begin(); i != p.End(); i = i.Next() {
				add(i)
			}
		}
	}
	return out
}

func vfSubset(a, b []string) bool {
	r := true
	for _, x := range a {
		r = vfAnd(r, vfStrIn(x, b))
	}
	return r
}

func vfSetEq(a, b []string) bool { return vfAnd(vfSubset(a, b), vfSubset(b, a)) }

func vfUnion(ls ...[]string) []string {
	var r []string
	for _, l := range ls {
		r = append(r, l...)
	}
	return r
}

// vfJSONHasKey: key present on a JSON object.
func vfJSONHasKey(v interface{}, key string) bool {
	m, ok := v.(map[string]interface{})
	if !ok {
		return false
	}
	_, has := m[key]
	return has
}

// vfObjectsOf: the values under 'object' of a JSON object (scalar or list).
func vfObjectsOf(v interface{}) []interface{} {
	m, ok := v.(map[string]interface{})
	if !ok {
		return nil
	}
	switch o := m["object"].(type) {
	case nil:
		return nil
	case []interface{}:
		return o
	default:
		return []interface{}{o}
	}
}

// vfHiddenAnywhere: bto/bcc on v or on anything reachable through 'object' (depth bounded).
func vfHiddenAnywhere(v interface{}, depth int) bool {
	if vfJSONHasKey(v, "bto") || vfJSONHasKey(v, "bcc") {
		return true
	}
	if depth <= 0 {
		return false
	}
	for _, o := range vfObjectsOf(v) {
		if vfHiddenAnywhere(o, depth-1) {
			return true
		}
	}
	return false
}

// vfPostOutbox: client POST (or programmatic Send) of tree to the outbox.
func (o *vfOutbox) run() {
	w := o.w
	actor := w.actor(o.social, o.fed)
	o.rw = vfNewWriter(w)
	for _, u := range w.outboxItems {
		o.preOutbox = append(o.preOutbox, u.String())
	}
	if o.viaSend {
		t := vfToType(o.tree)
		o.sendRes, o.err = actor.Send(vfCtx(), w.outboxIRI, t)
		o.handled = true
		return
	}
	req := vfRequest("POST", vfCT, "", w.outboxIRI, vfMarshal(o.tree))
	o.handled, o.err = actor.PostOutbox(vfCtx(), o.rw, req)
}

// vfJSONIDs: ids named by a JSON property value (IRI string, embedded object with id, or a list of these).
func vfJSONIDs(v interface{}) []string {
	switch x := v.(type) {
	case nil:
		return nil
	case string:
		return []string{x}
	case map[string]interface{}:
		if s, ok := x["id"].(string); ok {
			return []string{s}
		}
		return []string{"<no-id>"}
	case []interface{}:
		var r []string
		for _, e := range x {
			r = append(r, vfJSONIDs(e)...)
		}
		return r
	}
	return []string{"<bad>"}
}
