//go:build verif

package pub

// The symbolic "world" around an Actor: application-supplied Database,
// Transport, CommonBehavior, SocialProtocol, FederatingProtocol, Clock and
// ResponseWriter, built from the vf* primitives.  Every call appends to a
// ghost log on which the property assertions are stated; every fallible
// call asks vfFault(site).

import (
	"context"
	"errors"
	"net/http"
	"net/url"
	"time"

	"github.com/go-fed/activity/streams"
	"github.com/go-fed/activity/streams/vocab"
)

const vfAS = "https://www.w3.org/ns/activitystreams"

type vfEvent struct {
	kind   string // e.g. db.Lock, db.Get, tp.Dereference, tp.BatchDeliver, app.Create, s2s.Blocked, w.WriteHeader
	id     string
	id2    string
	val    vocab.Type
	bytes  []byte
	ids    []string
	n      int
	held   int // number of locks held by the request when the call was made
	failed bool
	authed bool
	unblk  bool
	snap   map[string]interface{} // JSON form of val at the time of the call
}

// vfSnap serialises a value when the call is made (later mutations of the same
// object - e.g. stripping bto/bcc before delivery - must not change the log).
func vfSnap(t vocab.Type) map[string]interface{} {
	if t == nil {
		return nil
	}
	m, err := streams.Serialize(t)
	if err != nil {
		return nil
	}
	return m
}

type vfStored struct {
	id  string
	val vocab.Type
}

type vfWorld struct {
	log  []vfEvent
	held []string

	// monitors
	trackLocks bool // keep the held-lock list without asserting (C08)
	checkLocks bool // C09: assert lock discipline at every Database call
	faults     bool // consult vfFault at fallible calls

	// gates for C07
	authed  bool
	unblk   bool
	needBlk bool // request kind needs the block check (inbox POST)

	// configuration
	authMode    int // 0 ok, 1 denied, 2 error, 3 error with the (ignored) flag true
	blockMode   int // 0 not blocked, 1 blocked, 2 error
	onFollow    OnFollowBehavior
	cbMode      int // 0 no app callbacks, 1 wrapped callbacks, 2 'other' overriding callbacks
	maxDeliver  int
	maxForward  int
	filterMode  int // 0 all, 1 none, 2 first only
	now         time.Time
	store       []vfStored
	inboxItems  []*url.URL
	outboxItems []*url.URL
	colItems    []*url.URL // pre-state of followers/following/liked
	remote      func(iri string) (interface{}, int) // JSON tree + kind (0 ok, 1 unreachable, 2 garbled)
	actorIRI    *url.URL
	inboxIRI    *url.URL
	outboxIRI   *url.URL
	newIDs      []*url.URL
	idKind      int
	missingReq  bool
	smallWorld  bool // restrict the stored/remote kind menus (body-mutation harnesses)
	hostile     bool // stored / remote documents may be incomplete or ill-typed (C11)
	distinctPool []string
	membersOf   func(col string) []*url.URL // collection members as a function of the collection id
	likesKind   int
	likesPre    int
	storedFollowN       int
	storedFollowSeen    bool
	storedFollowActor   string
	storedFollowObjects []string
	getNilOK    bool // C20 only: Get may return (nil, nil)
	defaultStore bool // Get falls back to vfGetDefault
	inboxSeen   func(id string) bool
	exists      func(id string) bool
	storedInbox func(actor string) *url.URL
	blockedArg  []string
	blockedN    int
	getInboxVal vocab.ActivityStreamsOrderedCollectionPage
	getOutboxVal vocab.ActivityStreamsOrderedCollectionPage
	nFaults     int // injected faults on this path
}

func vfNewWorld() *vfWorld {
	w := &vfWorld{maxDeliver: 1, maxForward: 1}
	w.actorIRI = vfURL("actor")
	w.inboxIRI = vfURL("inbox")
	w.outboxIRI = vfURL("outbox")
	w.inboxSeen = func(id string) bool { return vfUFBool("inboxHas", id) }
	w.exists = func(id string) bool { return vfUFBool("exists", id) }
	w.storedInbox = func(actor string) *url.URL { return nil }
	return w
}

var vfErrFault = errors.New("vf: injected fault")
var vfErrNotFound = errors.New("vf: not found")

func (w *vfWorld) ev(e vfEvent) {
	e.held = len(w.held)
	e.authed = w.authed
	e.unblk = w.unblk
	w.log = append(w.log, e)
}

func (w *vfWorld) fault(site string) bool {
	if !w.faults {
		return false
	}
	if vfFault(site) {
		w.nFaults++
		return true
	}
	return false
}

func vfS(u *url.URL) string {
	if u == nil {
		return "<nil>"
	}
	return u.String()
}

func (w *vfWorld) count(kind string) int {
	n := 0
	for _, e := range w.log {
		if e.kind == kind {
			n++
		}
	}
	return n
}

func (w *vfWorld) events(kind string) []vfEvent {
	var r []vfEvent
	for _, e := range w.log {
		if e.kind == kind {
			r = append(r, e)
		}
	}
	return r
}

// isHeld builds one term: id is among the held locks.
func (w *vfWorld) isHeld(id string) bool { return vfStrIn(id, w.held) }

// dbCall is the common prologue of every Database method except Lock/Unlock/NewID.
func (w *vfWorld) dbCall(kind, id string) {
	if w.checkLocks {
		vfAssert(len(w.held) > 0, "db-call-without-lock")
	}
}

// ---------------------------------------------------------------------
// Database

type vfDB struct{ w *vfWorld }

var _ Database = (*vfDB)(nil)

func (d *vfDB) Lock(c context.Context, id *url.URL) error {
	w := d.w
	s := vfS(id)
	w.ev(vfEvent{kind: "db.Lock", id: s})
	if w.fault("db.Lock") {
		w.log[len(w.log)-1].failed = true
		return vfErrFault
	}
	if w.checkLocks {
		vfAssert(vfNot(w.isHeld(s)), "lock-retaken-while-held")
	}
	if w.checkLocks || w.trackLocks {
		w.held = append(w.held, s)
	}
	return nil
}

func (d *vfDB) Unlock(c context.Context, id *url.URL) error {
	w := d.w
	s := vfS(id)
	w.ev(vfEvent{kind: "db.Unlock", id: s})
	if w.checkLocks {
		vfAssert(w.isHeld(s), "unlock-of-lock-not-held")
	}
	for i := range w.held {
		if !(w.checkLocks || w.trackLocks) {
			break
		}
		if w.held[i] == s {
			w.held = append(w.held[:i:i], w.held[i+1:]...)
			break
		}
	}
	return nil
}

func (d *vfDB) InboxContains(c context.Context, inbox, id *url.URL) (bool, error) {
	w := d.w
	w.dbCall("db.InboxContains", vfS(id))
	w.ev(vfEvent{kind: "db.InboxContains", id: vfS(inbox), id2: vfS(id)})
	if w.fault("db.InboxContains") {
		return false, vfErrFault
	}
	return w.inboxSeen(vfS(id)), nil
}

func vfPage(items []*url.URL) vocab.ActivityStreamsOrderedCollectionPage {
	p := streams.NewActivityStreamsOrderedCollectionPage()
	if items != nil {
		oi := streams.NewActivityStreamsOrderedItemsProperty()
		for _, it := range items {
			oi.AppendIRI(it)
		}
		p.SetActivityStreamsOrderedItems(oi)
	}
	return p
}

func (d *vfDB) GetInbox(c context.Context, inboxIRI *url.URL) (vocab.ActivityStreamsOrderedCollectionPage, error) {
	w := d.w
	w.dbCall("db.GetInbox", vfS(inboxIRI))
	w.ev(vfEvent{kind: "db.GetInbox", id: vfS(inboxIRI)})
	if w.fault("db.GetInbox") {
		return nil, vfErrFault
	}
	return vfPage(w.inboxItems), nil
}

func (d *vfDB) SetInbox(c context.Context, inbox vocab.ActivityStreamsOrderedCollectionPage) error {
	w := d.w
	w.dbCall("db.SetInbox", "")
	w.ev(vfEvent{kind: "db.SetInbox", val: inbox})
	if w.fault("db.SetInbox") {
		w.log[len(w.log)-1].failed = true
		return vfErrFault
	}
	return nil
}

func (d *vfDB) Owns(c context.Context, id *url.URL) (bool, error) {
	w := d.w
	w.dbCall("db.Owns", vfS(id))
	w.ev(vfEvent{kind: "db.Owns", id: vfS(id)})
	if w.fault("db.Owns") {
		return false, vfErrFault
	}
	return vfUFBool("owns", vfS(id)), nil
}

func (d *vfDB) ActorForOutbox(c context.Context, outboxIRI *url.URL) (*url.URL, error) {
	w := d.w
	w.dbCall("db.ActorForOutbox", vfS(outboxIRI))
	w.ev(vfEvent{kind: "db.ActorForOutbox", id: vfS(outboxIRI)})
	if w.fault("db.ActorForOutbox") {
		return nil, vfErrFault
	}
	return w.actorIRI, nil
}

func (d *vfDB) ActorForInbox(c context.Context, inboxIRI *url.URL) (*url.URL, error) {
	w := d.w
	w.dbCall("db.ActorForInbox", vfS(inboxIRI))
	w.ev(vfEvent{kind: "db.ActorForInbox", id: vfS(inboxIRI)})
	if w.fault("db.ActorForInbox") {
		return nil, vfErrFault
	}
	return w.actorIRI, nil
}

func (d *vfDB) OutboxForInbox(c context.Context, inboxIRI *url.URL) (*url.URL, error) {
	w := d.w
	w.dbCall("db.OutboxForInbox", vfS(inboxIRI))
	w.ev(vfEvent{kind: "db.OutboxForInbox", id: vfS(inboxIRI)})
	if w.fault("db.OutboxForInbox") {
		return nil, vfErrFault
	}
	return w.outboxIRI, nil
}

func (d *vfDB) InboxForActor(c context.Context, actorIRI *url.URL) (*url.URL, error) {
	w := d.w
	w.dbCall("db.InboxForActor", vfS(actorIRI))
	w.ev(vfEvent{kind: "db.InboxForActor", id: vfS(actorIRI)})
	if w.fault("db.InboxForActor") {
		return nil, vfErrFault
	}
	return w.storedInbox(vfS(actorIRI)), nil
}

func (d *vfDB) Exists(c context.Context, id *url.URL) (bool, error) {
	w := d.w
	w.dbCall("db.Exists", vfS(id))
	w.ev(vfEvent{kind: "db.Exists", id: vfS(id)})
	if w.fault("db.Exists") {
		return false, vfErrFault
	}
	return w.exists(vfS(id)), nil
}

func (d *vfDB) Get(c context.Context, id *url.URL) (vocab.Type, error) {
	w := d.w
	s := vfS(id)
	w.dbCall("db.Get", s)
	w.ev(vfEvent{kind: "db.Get", id: s})
	if w.fault("db.Get") {
		return nil, vfErrFault
	}
	for _, st := range w.store {
		if st.id == s {
			return st.val, nil
		}
	}
	if w.getNilOK {
		return nil, nil
	}
	if w.defaultStore {
		if v := w.vfGetDefault(id); v != nil {
			return v, nil
		}
	}
	return nil, vfErrNotFound
}

func (d *vfDB) Create(c context.Context, asType vocab.Type) error {
	w := d.w
	w.dbCall("db.Create", "")
	w.ev(vfEvent{kind: "db.Create", val: asType, id: vfIdOf(asType), snap: vfSnap(asType)})
	if w.fault("db.Create") {
		w.log[len(w.log)-1].failed = true
		return vfErrFault
	}
	return nil
}

func (d *vfDB) Update(c context.Context, asType vocab.Type) error {
	w := d.w
	w.dbCall("db.Update", "")
	w.ev(vfEvent{kind: "db.Update", val: asType, id: vfIdOf(asType), snap: vfSnap(asType)})
	if w.fault("db.Update") {
		w.log[len(w.log)-1].failed = true
		return vfErrFault
	}
	return nil
}

func (d *vfDB) Delete(c context.Context, id *url.URL) error {
	w := d.w
	w.dbCall("db.Delete", vfS(id))
	w.ev(vfEvent{kind: "db.Delete", id: vfS(id)})
	if w.fault("db.Delete") {
		w.log[len(w.log)-1].failed = true
		return vfErrFault
	}
	return nil
}

func (d *vfDB) GetOutbox(c context.Context, outboxIRI *url.URL) (vocab.ActivityStreamsOrderedCollectionPage, error) {
	w := d.w
	w.dbCall("db.GetOutbox", vfS(outboxIRI))
	w.ev(vfEvent{kind: "db.GetOutbox", id: vfS(outboxIRI)})
	if w.fault("db.GetOutbox") {
		return nil, vfErrFault
	}
	return vfPage(w.outboxItems), nil
}

func (d *vfDB) SetOutbox(c context.Context, outbox vocab.ActivityStreamsOrderedCollectionPage) error {
	w := d.w
	w.dbCall("db.SetOutbox", "")
	w.ev(vfEvent{kind: "db.SetOutbox", val: outbox})
	if w.fault("db.SetOutbox") {
		w.log[len(w.log)-1].failed = true
		return vfErrFault
	}
	return nil
}

func (d *vfDB) NewID(c context.Context, t vocab.Type) (*url.URL, error) {
	w := d.w
	w.ev(vfEvent{kind: "db.NewID"})
	if w.fault("db.NewID") {
		return nil, vfErrFault
	}
	id := vfURL("newid")
	// contract: fresh ids - pairwise distinct and different from every id of the request
	if w.distinctPool == nil {
		w.distinctPool = []string{w.actorIRI.String(), w.inboxIRI.String(), w.outboxIRI.String(),
			"https://www.w3.org/ns/activitystreams#Public", "as:Public", "Public"}
		vfDistinct(w.distinctPool)
	}
	w.distinctPool = append(w.distinctPool, id.String())
	vfDistinct(w.distinctPool)
	w.newIDs = append(w.newIDs, id)
	return id, nil
}

func vfCollection(items []*url.URL) vocab.ActivityStreamsCollection {
	col := streams.NewActivityStreamsCollection()
	if items != nil {
		it := streams.NewActivityStreamsItemsProperty()
		for _, u := range items {
			it.AppendIRI(u)
		}
		col.SetActivityStreamsItems(it)
	}
	return col
}

func (d *vfDB) Followers(c context.Context, actorIRI *url.URL) (vocab.ActivityStreamsCollection, error) {
	w := d.w
	w.dbCall("db.Followers", vfS(actorIRI))
	w.ev(vfEvent{kind: "db.Followers", id: vfS(actorIRI)})
	if w.fault("db.Followers") {
		return nil, vfErrFault
	}
	return vfCollection(w.colItems), nil
}

func (d *vfDB) Following(c context.Context, actorIRI *url.URL) (vocab.ActivityStreamsCollection, error) {
	w := d.w
	w.dbCall("db.Following", vfS(actorIRI))
	w.ev(vfEvent{kind: "db.Following", id: vfS(actorIRI)})
	if w.fault("db.Following") {
		return nil, vfErrFault
	}
	return vfCollection(w.colItems), nil
}

func (d *vfDB) Liked(c context.Context, actorIRI *url.URL) (vocab.ActivityStreamsCollection, error) {
	w := d.w
	w.dbCall("db.Liked", vfS(actorIRI))
	w.ev(vfEvent{kind: "db.Liked", id: vfS(actorIRI)})
	if w.fault("db.Liked") {
		return nil, vfErrFault
	}
	return vfCollection(w.colItems), nil
}

// vfIdOf returns the id string of a value ("" if it has none).
func vfIdOf(t vocab.Type) string {
	if t == nil {
		return ""
	}
	idp := t.GetJSONLDId()
	if idp == nil || idp.Get() == nil {
		return ""
	}
	return idp.Get().String()
}

// ---------------------------------------------------------------------
// Transport

type vfTransport struct{ w *vfWorld }

var _ Transport = (*vfTransport)(nil)

func (t *vfTransport) Dereference(c context.Context, iri *url.URL) ([]byte, error) {
	w := t.w
	s := vfS(iri)
	w.ev(vfEvent{kind: "tp.Dereference", id: s})
	if w.fault("tp.Dereference") {
		return nil, vfErrFault
	}
	if w.remote == nil {
		return nil, vfErrNotFound
	}
	doc, kind := w.remote(s)
	switch kind {
	case 1:
		return nil, vfErrNotFound
	case 2:
		return vfGarbled(), nil
	}
	return vfMarshal(doc), nil
}

func (t *vfTransport) Deliver(c context.Context, b []byte, to *url.URL) error {
	w := t.w
	w.ev(vfEvent{kind: "tp.Deliver", id: vfS(to), bytes: b})
	if w.fault("tp.Deliver") {
		return vfErrFault
	}
	return nil
}

func (t *vfTransport) BatchDeliver(c context.Context, b []byte, recipients []*url.URL) error {
	w := t.w
	var ids []string
	for _, r := range recipients {
		ids = append(ids, vfS(r))
	}
	w.ev(vfEvent{kind: "tp.BatchDeliver", bytes: b, ids: ids})
	if w.fault("tp.BatchDeliver") {
		return vfErrFault
	}
	return nil
}

// ---------------------------------------------------------------------
// CommonBehavior / protocols / clock

type vfApp struct{ w *vfWorld }

var _ CommonBehavior = (*vfApp)(nil)
var _ FederatingProtocol = (*vfApp)(nil)

func (a *vfApp) auth(kind string, c context.Context, rw http.ResponseWriter) (context.Context, bool, error) {
	w := a.w
	w.ev(vfEvent{kind: kind})
	switch w.authMode {
	case 1:
		// the application answers a denied request itself
		rw.WriteHeader(http.StatusUnauthorized)
		return c, false, nil
	case 2:
		return c, false, vfErrFault
	case 3:
		// an error together with authenticated == true: the flag is documented to be ignored then
		return c, true, vfErrFault
	}
	w.authed = true
	return c, true, nil
}

func (a *vfApp) AuthenticateGetInbox(c context.Context, rw http.ResponseWriter, r *http.Request) (context.Context, bool, error) {
	return a.auth("app.AuthenticateGetInbox", c, rw)
}
func (a *vfApp) AuthenticateGetOutbox(c context.Context, rw http.ResponseWriter, r *http.Request) (context.Context, bool, error) {
	return a.auth("app.AuthenticateGetOutbox", c, rw)
}
func (a *vfApp) AuthenticatePostInbox(c context.Context, rw http.ResponseWriter, r *http.Request) (context.Context, bool, error) {
	return a.auth("app.AuthenticatePostInbox", c, rw)
}
func (a *vfApp) GetOutbox(c context.Context, r *http.Request) (vocab.ActivityStreamsOrderedCollectionPage, error) {
	w := a.w
	w.ev(vfEvent{kind: "app.GetOutbox"})
	if w.fault("app.GetOutbox") {
		return nil, vfErrFault
	}
	return w.getOutboxVal, nil
}
func (a *vfApp) GetInbox(c context.Context, r *http.Request) (vocab.ActivityStreamsOrderedCollectionPage, error) {
	w := a.w
	w.ev(vfEvent{kind: "app.GetInbox"})
	if w.fault("app.GetInbox") {
		return nil, vfErrFault
	}
	return w.getInboxVal, nil
}
func (a *vfApp) NewTransport(c context.Context, actorBoxIRI *url.URL, gofedAgent string) (Transport, error) {
	w := a.w
	w.ev(vfEvent{kind: "app.NewTransport", id: vfS(actorBoxIRI)})
	if w.fault("app.NewTransport") {
		return nil, vfErrFault
	}
	return &vfTransport{w: w}, nil
}
func (a *vfApp) PostInboxRequestBodyHook(c context.Context, r *http.Request, activity Activity) (context.Context, error) {
	w := a.w
	w.ev(vfEvent{kind: "app.PostInboxRequestBodyHook"})
	if w.fault("app.PostInboxRequestBodyHook") {
		return c, vfErrFault
	}
	return c, nil
}
func (a *vfApp) Blocked(c context.Context, actorIRIs []*url.URL) (bool, error) {
	w := a.w
	var ids []string
	for _, u := range actorIRIs {
		ids = append(ids, vfS(u))
	}
	w.ev(vfEvent{kind: "s2s.Blocked", ids: ids})
	w.blockedArg = ids
	w.blockedN++
	switch w.blockMode {
	case 1:
		return true, nil
	case 2:
		return false, vfErrFault
	}
	w.unblk = true
	return false, nil
}

func (a *vfApp) appCb(name string) error {
	w := a.w
	w.ev(vfEvent{kind: "app." + name})
	if w.fault("app." + name) {
		return vfErrFault
	}
	return nil
}

func (a *vfApp) FederatingCallbacks(c context.Context) (FederatingWrappedCallbacks, []interface{}, error) {
	w := a.w
	w.ev(vfEvent{kind: "s2s.FederatingCallbacks"})
	var wr FederatingWrappedCallbacks
	var other []interface{}
	if w.fault("s2s.FederatingCallbacks") {
		return wr, nil, vfErrFault
	}
	wr.OnFollow = w.onFollow
	switch w.cbMode {
	case 1:
		wr.Create = func(context.Context, vocab.ActivityStreamsCreate) error { return a.appCb("Create") }
		wr.Update = func(context.Context, vocab.ActivityStreamsUpdate) error { return a.appCb("Update") }
		wr.Delete = func(context.Context, vocab.ActivityStreamsDelete) error { return a.appCb("Delete") }
		wr.Follow = func(context.Context, vocab.ActivityStreamsFollow) error { return a.appCb("Follow") }
		wr.Accept = func(context.Context, vocab.ActivityStreamsAccept) error { return a.appCb("Accept") }
		wr.Reject = func(context.Context, vocab.ActivityStreamsReject) error { return a.appCb("Reject") }
		wr.Add = func(context.Context, vocab.ActivityStreamsAdd) error { return a.appCb("Add") }
		wr.Remove = func(context.Context, vocab.ActivityStreamsRemove) error { return a.appCb("Remove") }
		wr.Like = func(context.Context, vocab.ActivityStreamsLike) error { return a.appCb("Like") }
		wr.Announce = func(context.Context, vocab.ActivityStreamsAnnounce) error { return a.appCb("Announce") }
		wr.Undo = func(context.Context, vocab.ActivityStreamsUndo) error { return a.appCb("Undo") }
		wr.Block = func(context.Context, vocab.ActivityStreamsBlock) error { return a.appCb("Block") }
	case 2:
		other = []interface{}{
			func(context.Context, vocab.ActivityStreamsCreate) error { return a.appCb("other.Create") },
			func(context.Context, vocab.ActivityStreamsUpdate) error { return a.appCb("other.Update") },
			func(context.Context, vocab.ActivityStreamsDelete) error { return a.appCb("other.Delete") },
			func(context.Context, vocab.ActivityStreamsFollow) error { return a.appCb("other.Follow") },
			func(context.Context, vocab.ActivityStreamsAccept) error { return a.appCb("other.Accept") },
			func(context.Context, vocab.ActivityStreamsReject) error { return a.appCb("other.Reject") },
			func(context.Context, vocab.ActivityStreamsAdd) error { return a.appCb("other.Add") },
			func(context.Context, vocab.ActivityStreamsRemove) error { return a.appCb("other.Remove") },
			func(context.Context, vocab.ActivityStreamsLike) error { return a.appCb("other.Like") },
			func(context.Context, vocab.ActivityStreamsAnnounce) error { return a.appCb("other.Announce") },
			func(context.Context, vocab.ActivityStreamsUndo) error { return a.appCb("other.Undo") },
			func(context.Context, vocab.ActivityStreamsBlock) error { return a.appCb("other.Block") },
		}
	}
	return wr, other, nil
}

func (a *vfApp) DefaultCallback(c context.Context, activity Activity) error {
	return a.appCb("DefaultCallback")
}
func (a *vfApp) MaxInboxForwardingRecursionDepth(c context.Context) int { return a.w.maxForward }
func (a *vfApp) MaxDeliveryRecursionDepth(c context.Context) int        { return a.w.maxDeliver }
func (a *vfApp) FilterForwarding(c context.Context, potentialRecipients []*url.URL, act Activity) ([]*url.URL, error) {
	w := a.w
	var ids []string
	for _, u := range potentialRecipients {
		ids = append(ids, vfS(u))
	}
	w.ev(vfEvent{kind: "s2s.FilterForwarding", ids: ids})
	if w.fault("s2s.FilterForwarding") {
		return nil, vfErrFault
	}
	switch w.filterMode {
	case 1:
		return nil, nil
	case 2:
		if len(potentialRecipients) > 0 {
			return potentialRecipients[:1], nil
		}
	}
	return potentialRecipients, nil
}

// vfSocial is the SocialProtocol side (separate type: DefaultCallback clashes).
type vfSocial struct{ w *vfWorld }

var _ SocialProtocol = (*vfSocial)(nil)

func (a *vfSocial) PostOutboxRequestBodyHook(c context.Context, r *http.Request, data vocab.Type) (context.Context, error) {
	w := a.w
	w.ev(vfEvent{kind: "app.PostOutboxRequestBodyHook"})
	if w.fault("app.PostOutboxRequestBodyHook") {
		return c, vfErrFault
	}
	return c, nil
}
func (a *vfSocial) AuthenticatePostOutbox(c context.Context, rw http.ResponseWriter, r *http.Request) (context.Context, bool, error) {
	return (&vfApp{w: a.w}).auth("app.AuthenticatePostOutbox", c, rw)
}
func (a *vfSocial) cb(name string) error { return (&vfApp{w: a.w}).appCb(name) }
func (a *vfSocial) SocialCallbacks(c context.Context) (SocialWrappedCallbacks, []interface{}, error) {
	w := a.w
	w.ev(vfEvent{kind: "c2s.SocialCallbacks"})
	var wr SocialWrappedCallbacks
	var other []interface{}
	if w.fault("c2s.SocialCallbacks") {
		return wr, nil, vfErrFault
	}
	switch w.cbMode {
	case 1:
		wr.Create = func(context.Context, vocab.ActivityStreamsCreate) error { return a.cb("Create") }
		wr.Update = func(context.Context, vocab.ActivityStreamsUpdate) error { return a.cb("Update") }
		wr.Delete = func(context.Context, vocab.ActivityStreamsDelete) error { return a.cb("Delete") }
		wr.Follow = func(context.Context, vocab.ActivityStreamsFollow) error { return a.cb("Follow") }
		wr.Add = func(context.Context, vocab.ActivityStreamsAdd) error { return a.cb("Add") }
		wr.Remove = func(context.Context, vocab.ActivityStreamsRemove) error { return a.cb("Remove") }
		wr.Like = func(context.Context, vocab.ActivityStreamsLike) error { return a.cb("Like") }
		wr.Undo = func(context.Context, vocab.ActivityStreamsUndo) error { return a.cb("Undo") }
		wr.Block = func(context.Context, vocab.ActivityStreamsBlock) error { return a.cb("Block") }
	case 2:
		other = []interface{}{
			func(context.Context, vocab.ActivityStreamsCreate) error { return a.cb("other.Create") },
			func(context.Context, vocab.ActivityStreamsUpdate) error { return a.cb("other.Update") },
			func(context.Context, vocab.ActivityStreamsDelete) error { return a.cb("other.Delete") },
			func(context.Context, vocab.ActivityStreamsFollow) error { return a.cb("other.Follow") },
			func(context.Context, vocab.ActivityStreamsAdd) error { return a.cb("other.Add") },
			func(context.Context, vocab.ActivityStreamsRemove) error { return a.cb("other.Remove") },
			func(context.Context, vocab.ActivityStreamsLike) error { return a.cb("other.Like") },
			func(context.Context, vocab.ActivityStreamsUndo) error { return a.cb("other.Undo") },
			func(context.Context, vocab.ActivityStreamsBlock) error { return a.cb("other.Block") },
		}
	}
	return wr, other, nil
}
func (a *vfSocial) DefaultCallback(c context.Context, activity Activity) error {
	return a.cb("DefaultCallback")
}

type vfClock struct{ w *vfWorld }

func (c *vfClock) Now() time.Time { return c.w.now }

// ---------------------------------------------------------------------
// ResponseWriter

type vfWriter struct {
	w       *vfWorld
	hdr     http.Header
	codes   []int
	bodies  [][]byte
	hdrAtWH http.Header // header snapshot at the first WriteHeader
}

func vfNewWriter(w *vfWorld) *vfWriter { return &vfWriter{w: w, hdr: http.Header{}} }

func (rw *vfWriter) Header() http.Header { return rw.hdr }
func (rw *vfWriter) WriteHeader(code int) {
	rw.w.ev(vfEvent{kind: "w.WriteHeader", n: code})
	rw.codes = append(rw.codes, code)
}
func (rw *vfWriter) Write(b []byte) (int, error) {
	rw.w.ev(vfEvent{kind: "w.Write", bytes: b})
	rw.bodies = append(rw.bodies, b)
	return len(b), nil
}

// ---------------------------------------------------------------------
// Requests and actors

func vfRequest(method, ctHeader, acceptHeader string, u *url.URL, body []byte) *http.Request {
	r := &http.Request{Method: method, Header: http.Header{}, URL: u, Host: u.Host}
	if !vfIsEmptyConst(ctHeader) {
		r.Header.Set("Content-Type", ctHeader)
	}
	if !vfIsEmptyConst(acceptHeader) {
		r.Header.Set("Accept", acceptHeader)
	}
	r.Body = &vfBody{raw: body}
	return r
}

const vfCT = "application/activity+json"

func (w *vfWorld) actor(social, federating bool) FederatingActor {
	app := &vfApp{w: w}
	soc := &vfSocial{w: w}
	db := &vfDB{w: w}
	clk := &vfClock{w: w}
	switch {
	case social && federating:
		return NewActor(app, soc, app, db, clk)
	case federating:
		return NewFederatingActor(app, app, db, clk)
	}
	a := NewSocialActor(app, soc, db, clk)
	return &baseActorFederating{*(a.(*baseActor))}
}

// vfDoc builds a JSON object with @context and type.
func vfDoc(typ string, kv ...interface{}) map[string]interface{} {
	m := map[string]interface{}{"@context": vfAS, "type": typ}
	for i := 0; i+1 < len(kv); i += 2 {
		m[kv[i].(string)] = kv[i+1]
	}
	return m
}

// vfToType decodes a JSON tree through the real decoder.
func vfToType(m map[string]interface{}) vocab.Type {
	t, err := streams.ToType(context.Background(), m)
	if err != nil {
		panic("vfToType: " + err.Error())
	}
	return t
}

// vfIRIs returns n fresh symbolic IRI strings as a JSON list.
func vfIRIList(tag string, n int) []interface{} {
	var l []interface{}
	for i := 0; i < n; i++ {
		l = append(l, vfIRI(tag))
	}
	return l
}

// vfIsEmptyConst: the harness passed the literal "" (a symbolic string is never "absent").
func vfIsEmptyConst(s string) bool { return !vfSymbolic(s) && s == "" }
