//go:build verif

package pub

// C19: the bundled HTTP-signature transport signs every request, finishes every batch, is race-free.
//
// Environment: a recording httpsig.Signer (per call: key, key id, request pointer, header snapshot,
// body handle; watches for overlapping entry), a recording HttpClient whose outcome per request is
// symbolic (transport error, or a response with a status that is an arbitrary int), a symbolic clock.
// Batches run on the engine's simulated threads: every interleaving of the goroutines at the
// granularity of SignRequest / Do / sync operations up to the preemption bound.

import (
	"context"
	"crypto"
	"errors"
	"io/ioutil"
	"net/http"
	"net/url"
	"time"

	"github.com/go-fed/httpsig"
)

const vfASMediaType = "application/ld+json; profile=\"https://www.w3.org/ns/activitystreams\""

type vfKey struct{ n int }

type vfSignRec struct {
	signer string
	key    crypto.PrivateKey
	keyId  string
	req    *http.Request
	before map[string][]string // headers as handed to the signer
	after  map[string][]string // headers when the signer returned
	method string
	url    string
	host   string
	body   []byte
	failed bool
}

type vfSendRec struct {
	req    *http.Request
	url    string
	method string
	host   string
	hdr    map[string][]string
	body   []byte
	hasB   bool
	failed bool // transport error or non-success status
	status int
	isErr  bool
}

type vfC19World struct {
	now     time.Time
	agent   string
	key     *vfKey
	keyId   string
	signs   []*vfSignRec
	sends   []*vfSendRec
	busy    map[string]bool
	respB   []byte
	statusT string
	simple  bool // outcomes fixed (200, no signer fault): only the schedule varies
}

func vfCopyHeader(h http.Header) map[string][]string {
	out := map[string][]string{}
	for k, v := range h {
		out[k] = append([]string(nil), v...)
	}
	return out
}

type vfC19Clock struct{ w *vfC19World }

func (c *vfC19Clock) Now() time.Time { return c.w.now }

type vfC19Signer struct {
	w    *vfC19World
	name string
}

var _ httpsig.Signer = &vfC19Signer{}

func (s *vfC19Signer) SignResponse(pKey crypto.PrivateKey, pubKeyId string, r http.ResponseWriter, body []byte) error {
	return nil
}

func (s *vfC19Signer) SignRequest(pKey crypto.PrivateKey, pubKeyId string, r *http.Request, body []byte) error {
	w := s.w
	rec := &vfSignRec{signer: s.name, key: pKey, keyId: pubKeyId, req: r, body: body}
	if r != nil {
		rec.url = r.URL.String()
	}
	overlapped, fail := false, false
	// the signer is stateful: entering and leaving it are scheduling points, so that another
	// goroutine may try to enter in between
	vfGate("sign-enter-"+s.name, rec.url, func() {
		overlapped = w.busy[s.name]
		w.busy[s.name] = true
		fail = !w.simple && vfFault("signer.SignRequest")
	})
	vfAssert(!overlapped, "signer-entered-while-another-call-on-it-is-in-progress")
	if r != nil {
		rec.before = vfCopyHeader(r.Header)
		rec.method = r.Method
		rec.host = r.URL.Host
	}
	if !fail && r != nil {
		// what a real signer does to the request
		r.Header.Set("Signature", "keyId=\""+pubKeyId+"\"")
		if body != nil {
			r.Header.Set("Digest", "SHA-256="+vfDigest(body))
		}
	}
	rec.failed = fail
	if r != nil {
		rec.after = vfCopyHeader(r.Header)
	}
	vfGate("sign-exit-"+s.name, rec.url, func() {
		w.busy[s.name] = false
		w.signs = append(w.signs, rec)
	})
	if fail {
		return errors.New("signing failed for " + rec.url)
	}
	return nil
}

type vfC19Client struct{ w *vfC19World }

func (c *vfC19Client) Do(req *http.Request) (*http.Response, error) {
	w := c.w
	rec := &vfSendRec{req: req, url: req.URL.String(), method: req.Method, host: req.URL.Host}
	var resp *http.Response
	var err error
	vfGate("do", rec.url, func() {
		rec.hdr = vfCopyHeader(req.Header)
		if req.Body != nil {
			b, _ := ioutil.ReadAll(req.Body)
			rec.body, rec.hasB = b, true
		}
		if w.simple {
			rec.status = 200
			resp = &http.Response{StatusCode: 200, Status: w.statusT, Body: &vfBody{raw: w.respB}}
		} else if vfChoose("do.outcome", 2) == 0 {
			rec.isErr, rec.failed = true, true
			err = errors.New("transport error reaching " + rec.url)
		} else {
			code := vfInt("do.status", -2147483648, 2147483647)
			rec.status = code
			rec.failed = !(code == 200 || code == 201 || code == 202)
			resp = &http.Response{StatusCode: code, Status: w.statusT, Body: &vfBody{raw: w.respB}}
		}
		w.sends = append(w.sends, rec)
	})
	return resp, err
}

func vfC19New() (*vfC19World, *HttpSigTransport) {
	vfOpaqueItoa(true)
	vfParam("faults", 1)
	w := &vfC19World{now: vfTime("now"), agent: vfString("app.agent"), key: &vfKey{1}, keyId: vfString("key.id"),
		busy: map[string]bool{}, respB: vfMarshal(map[string]interface{}{"type": "Note"}), statusT: "status text"}
	t := NewHttpSigTransport(&vfC19Client{w}, w.agent, &vfC19Clock{w}, &vfC19Signer{w, "get"}, &vfC19Signer{w, "post"}, w.keyId, w.key)
	return w, t
}

func vfHdr1(h map[string][]string, k string) string {
	if l := h[k]; len(l) > 0 {
		return l[0]
	}
	return ""
}

func vfSameHeader(a, b map[string][]string) bool {
	if len(a) != len(b) {
		return false
	}
	ok := true
	for k, va := range a {
		vb, present := b[k]
		if !present || len(va) != len(vb) {
			return false
		}
		for i := range va {
			ok = vfAnd(ok, vfStrEq(va[i], vb[i]))
		}
	}
	return ok
}

// every request that reached the client was signed, with the right material, after the headers were
// in place, and was not altered afterwards
func (w *vfC19World) checkRequests(get bool, payload []byte) {
	for _, s := range w.sends {
		var sg *vfSignRec
		for _, x := range w.signs {
			if x.req == s.req {
				vfAssert(sg == nil, "request-signed-twice")
				sg = x
			}
		}
		vfAssert(sg != nil, "request-sent-without-having-been-handed-to-the-signer")
		if sg == nil {
			continue
		}
		vfAssert(!sg.failed, "request-sent-although-signing-failed")
		// nothing altered between signing and sending
		vfAssert(vfSameHeader(sg.after, s.hdr), "headers-altered-after-signing")
		vfAssert(sg.method == s.method, "method-altered-after-signing")
		vfAssert(vfStrEq(sg.url, s.url), "url-altered-after-signing")
		if get {
			vfAssert(!s.hasB, "get-request-carries-a-body")
			vfAssert(sg.body == nil, "get-request-signed-with-a-body")
		} else {
			vfAssert(s.hasB, "post-request-without-body")
			vfAssert(s.hasB && vfSameBytes(s.body, payload), "bytes-sent-are-not-the-payload")
			vfAssert(sg.body != nil && vfSameBytes(sg.body, payload), "bytes-signed-are-not-the-bytes-sent")
		}
	}
	wantSigner, wantMethod := "post", "POST"
	if get {
		wantSigner, wantMethod = "get", "GET"
	}
	for _, sg := range w.signs {
		vfAssert(sg.req != nil, "signer-given-no-request")
		if sg.req == nil {
			continue
		}
		vfAssert(sg.signer == wantSigner, "wrong-signer-for-the-method")
		vfAssert(sg.method == wantMethod, "wrong-http-method")
		vfAssert(sg.key == crypto.PrivateKey(w.key), "not-signed-with-the-actors-key")
		vfAssert(sg.keyId == w.keyId, "not-signed-with-the-actors-key-id")
		h := sg.before
		vfAssert(vfHdr1(h, "Date") == vfFormatTime(w.now.UTC(), vfDateLayout)+" GMT", "date-header-missing-or-not-the-clock-instant-at-signing")
		vfAssert(vfHdr1(h, "Host") == sg.host, "host-header-missing-or-wrong-at-signing")
		vfAssert(vfHdr1(h, "User-Agent") == w.agent+" "+goFedUserAgent(), "user-agent-is-not-app-agent-then-library-agent-at-signing")
		vfAssert(vfContains(goFedUserAgent(), "go-fed/activity"), "library-agent-does-not-name-the-library")
		if get {
			vfAssert(vfHdr1(h, "Accept") == vfASMediaType, "accept-header-missing-at-signing")
		} else {
			vfAssert(vfHdr1(h, "Content-Type") == vfASMediaType, "content-type-header-missing-at-signing")
		}
		for _, k := range []string{"Date", "Host", "User-Agent", "Accept", "Content-Type"} {
			vfAssert(len(h[k]) <= 1, "header-set-more-than-once")
		}
	}
}

func VfC19_IsSuccess() {
	code := vfInt("code", -9223372036854775808, 9223372036854775807)
	want := vfOr(code == 200, vfOr(code == 201, code == 202))
	vfAssert(vfIff(isSuccess(code), want), "isSuccess-is-not-exactly-200-201-202")
	vfCover("end")
}

func VfC19_Dereference() {
	w, t := vfC19New()
	u := vfURL("iri")
	body, err := t.Dereference(context.Background(), u)
	w.checkRequests(true, nil)
	vfAssert(len(w.signs) == 1, "signer-not-called-exactly-once")
	signFailed := len(w.signs) == 1 && w.signs[0].failed
	if signFailed {
		vfCover("sign-failed")
		vfAssert(err != nil && body == nil && len(w.sends) == 0, "failed-signing-must-fail-the-call-without-sending")
		return
	}
	vfAssert(len(w.sends) == 1, "request-not-sent-exactly-once")
	if len(w.sends) != 1 {
		return
	}
	s := w.sends[0]
	vfAssert(vfStrEq(s.url, u.String()), "request-sent-to-another-url")
	if s.isErr {
		vfCover("transport-error")
		vfAssert(err != nil && body == nil, "transport-error-not-reported")
		return
	}
	if err == nil {
		vfCover("body-returned")
		vfAssert(s.status == 200, "body-returned-for-a-status-other-than-200")
		vfAssert(vfSameBytes(body, w.respB), "returned-bytes-are-not-the-response-body")
	} else {
		vfCover("status-refused")
		vfAssert(s.status != 200, "status-200-refused")
		vfAssert(body == nil, "body-returned-together-with-an-error")
		vfAssert(vfContains(err.Error(), u.String()), "error-does-not-name-the-url")
	}
	vfCover("end")
}

func VfC19_Deliver() {
	w, t := vfC19New()
	u := vfURL("to")
	payload := vfMarshal(map[string]interface{}{"type": "Create", "id": "https://example.com/act/1"})
	err := t.Deliver(context.Background(), payload, u)
	w.checkRequests(false, payload)
	vfAssert(len(w.signs) == 1, "signer-not-called-exactly-once")
	if len(w.signs) == 1 && w.signs[0].failed {
		vfCover("sign-failed")
		vfAssert(err != nil && len(w.sends) == 0, "failed-signing-must-fail-the-call-without-sending")
		return
	}
	vfAssert(len(w.sends) == 1, "request-not-sent-exactly-once")
	if len(w.sends) != 1 {
		return
	}
	s := w.sends[0]
	vfAssert(vfStrEq(s.url, u.String()), "request-sent-to-another-url")
	if s.isErr {
		vfCover("transport-error")
		vfAssert(err != nil, "transport-error-not-reported")
		return
	}
	ok := vfOr(s.status == 200, vfOr(s.status == 201, s.status == 202))
	vfAssert(vfIff(err == nil, ok), "deliver-succeeds-iff-status-200-201-202")
	if err != nil {
		vfCover("status-refused")
		vfAssert(vfContains(err.Error(), u.String()), "error-does-not-name-the-url")
	} else {
		vfCover("delivered")
	}
	vfCover("end")
}

// one batch: every recipient attempted exactly once whatever the others do, error iff some attempt
// failed, every failure named, under every interleaving of the batch's goroutines
func vfC19Batch(w *vfC19World, t *HttpSigTransport, tag string, n int, payload []byte) ([]*url.URL, error) {
	var rcpts []*url.URL
	for i := 0; i < n; i++ {
		rcpts = append(rcpts, vfURL(tag))
	}
	err := t.BatchDeliver(context.Background(), payload, rcpts)
	return rcpts, err
}

func vfC19CheckBatch(w *vfC19World, rcpts []*url.URL, err error, signs []*vfSignRec, sends []*vfSendRec) {
	var want, signed, sent []string
	for _, r := range rcpts {
		want = append(want, r.String())
	}
	for _, s := range signs {
		signed = append(signed, s.url)
	}
	anyFail := false
	for _, s := range signs {
		if s.failed {
			anyFail = true
		}
	}
	for _, s := range sends {
		sent = append(sent, s.url)
		if s.failed {
			anyFail = true
		}
	}
	vfAssert(len(signed) == len(want), "not-every-recipient-attempted-exactly-once")
	for _, r := range want {
		vfAssert(vfCount(r, signed) == vfCount(r, want), "recipient-not-attempted-exactly-as-often-as-listed")
	}
	nSignFail := 0
	for _, s := range signs {
		if s.failed {
			nSignFail++
		}
	}
	vfAssert(len(sent)+nSignFail == len(want), "an-attempt-was-abandoned-or-repeated")
	vfAssert((err != nil) == anyFail, "batch-error-iff-some-attempt-failed")
	if err != nil {
		msg := err.Error()
		for _, s := range sends {
			if s.failed {
				vfAssert(vfContains(msg, s.url), "failure-not-named-in-the-batch-error")
			}
		}
		nf := nSignFail
		for _, s := range signs {
			if s.failed {
				vfAssert(vfContains(msg, s.url), "failure-not-named-in-the-batch-error")
			}
		}
		for _, s := range sends {
			if s.failed {
				nf++
			}
		}
		if nf >= 2 {
			vfCover("two-failures")
		}
	}
}

func VfC19_Batch() {
	vfThreads(vfParam("preempt", 2))
	w, t := vfC19New()
	n := vfChoose("n", vfParam("rcpts", 3)+1)
	payload := vfMarshal(map[string]interface{}{"type": "Create", "id": "https://example.com/act/1"})
	rcpts, err := vfC19Batch(w, t, "rcpt", n, payload)
	w.checkRequests(false, payload)
	vfC19CheckBatch(w, rcpts, err, w.signs, w.sends)
	if n >= 2 {
		vfCover("concurrent")
	}
	if err != nil {
		vfCover("failed")
	} else {
		vfCover("delivered")
	}
	vfCover("end")
}

// two overlapping batches on ONE transport value
func VfC19_TwoBatches() {
	vfThreads(vfParam("preempt2", vfParam("preempt", 2)))
	w, t := vfC19New()
	w.simple = true
	n := vfParam("rcpts2", 1)
	p1 := vfMarshal(map[string]interface{}{"type": "Create", "id": "https://example.com/act/1"})
	p2 := vfMarshal(map[string]interface{}{"type": "Like", "id": "https://example.com/act/2"})
	done := make(chan error, 2)
	var r1, r2 []*url.URL
	for i := 0; i < n; i++ {
		r1 = append(r1, vfURL("rcpt.a"))
		r2 = append(r2, vfURL("rcpt.b"))
	}
	go func() { done <- t.BatchDeliver(context.Background(), p1, r1) }()
	go func() { done <- t.BatchDeliver(context.Background(), p2, r2) }()
	e1 := <-done
	e2 := <-done
	vfAssert(len(w.signs) == 2*n, "not-every-recipient-of-both-batches-attempted-once")
	anyFail := false
	for _, s := range w.signs {
		if s.failed {
			anyFail = true
		}
	}
	for _, s := range w.sends {
		if s.failed {
			anyFail = true
		}
		// each request carries the payload of its own batch
		vfAssert(s.hasB && (vfSameBytes(s.body, p1) || vfSameBytes(s.body, p2)), "bytes-sent-are-not-a-batch-payload")
	}
	vfAssert((e1 != nil || e2 != nil) == anyFail, "batch-error-iff-some-attempt-failed")
	vfCover("end")
}

// Dereference and Deliver running concurrently on one transport value (different signers)
func VfC19_DerefWhileDelivering() {
	vfThreads(vfParam("preempt", 2))
	w, t := vfC19New()
	w.simple = true
	payload := vfMarshal(map[string]interface{}{"type": "Create", "id": "https://example.com/act/1"})
	u1, u2, u3 := vfURL("a"), vfURL("b"), vfURL("c")
	done := make(chan error, 3)
	go func() { _, e := t.Dereference(context.Background(), u1); done <- e }()
	go func() { _, e := t.Dereference(context.Background(), u2); done <- e }()
	go func() { done <- t.Deliver(context.Background(), payload, u3) }()
	<-done
	<-done
	<-done
	vfAssert(len(w.signs) == 3, "signer-not-called-once-per-request")
	vfCover("end")
}
