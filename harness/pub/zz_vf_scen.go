//go:build verif

package pub

// Scenario builders shared by the pub harnesses: request bodies for every
// handled activity type and the default contents of the application's store.

import (
	"context"
	"net/url"

	"github.com/go-fed/activity/streams"
	"github.com/go-fed/activity/streams/vocab"
)

var vfInboxTypes = []string{"Create", "Update", "Delete", "Follow", "Accept", "Reject", "Add", "Remove", "Like", "Announce", "Undo", "Block", "Listen"}

// vfObjEntry returns one value of an object-like property: an IRI or an
// embedded value of type typ with that id (harness decision).
func vfObjEntry(tag, typ string, mode int) (interface{}, string) {
	id := vfIRI(tag)
	if mode == 2 {
		mode = vfChoose(tag+".form", 2)
	}
	if mode == 0 {
		return id, id
	}
	return map[string]interface{}{"type": typ, "id": id}, id
}

func vfScalarOrList(l []interface{}) interface{} {
	if len(l) == 1 {
		return l[0]
	}
	return l
}

type vfAct struct {
	tree    map[string]interface{}
	id      string
	actors  []string
	objects []string
	targets []string
	to      []string
}

// vfActivity builds an activity document: symbolic id, nActors actors,
// nObj objects (IRI or embedded, objMode 0/1/2=choose), optional target, one 'to'.
func vfActivity(typ string, nActors, nObj, objMode int, objType string) *vfAct {
	a := &vfAct{}
	a.id = vfIRI("act.id")
	a.tree = vfDoc(typ, "id", a.id)
	var actors []interface{}
	for i := 0; i < nActors; i++ {
		s := vfIRI("act.actor")
		actors = append(actors, s)
		a.actors = append(a.actors, s)
	}
	if nActors > 0 {
		a.tree["actor"] = vfScalarOrList(actors)
	}
	var objs []interface{}
	for i := 0; i < nObj; i++ {
		o, id := vfObjEntry("act.object", objType, objMode)
		objs = append(objs, o)
		a.objects = append(a.objects, id)
	}
	if nObj > 0 {
		a.tree["object"] = vfScalarOrList(objs)
	}
	if typ == "Add" || typ == "Remove" {
		t := vfIRI("act.target")
		a.tree["target"] = t
		a.targets = append(a.targets, t)
	}
	return a
}

// vfDefaultStore gives the application's store its default contents: the
// kind of the value stored under an id is an uninterpreted function of the
// id (0 Note, 1 Collection, 2 OrderedCollection, 3 Follow, 4 Person with inbox).
func (w *vfWorld) vfGetDefault(id *url.URL) vocab.Type {
	idp := streams.NewJSONLDIdProperty()
	idp.Set(id)
	maxKind := 5
	if w.hostile {
		maxKind = 10
	}
	sk := vfUFInt("storedKind", id.String(), 0, maxKind)
	if w.smallWorld {
		vfAssume(sk == 0 || sk == 1 || sk == 3, "small world: stored values are Notes, Collections or Follows")
	}
	switch sk {
	case 5:
		return nil // nothing stored under this id
	case 6: // hostile: a Follow without actor
		f := streams.NewActivityStreamsFollow()
		f.SetJSONLDId(idp)
		op := streams.NewActivityStreamsObjectProperty()
		op.AppendIRI(vfURL("stored.follow.object"))
		f.SetActivityStreamsObject(op)
		return f
	case 7: // hostile: a Follow without object
		f := streams.NewActivityStreamsFollow()
		f.SetJSONLDId(idp)
		ap := streams.NewActivityStreamsActorProperty()
		ap.AppendIRI(w.actorIRI)
		f.SetActivityStreamsActor(ap)
		return f
	case 8: // hostile: an actor without inbox
		p := streams.NewActivityStreamsPerson()
		p.SetJSONLDId(idp)
		return p
	case 9: // hostile: a Collection with a member that has neither id nor href
		c := streams.NewActivityStreamsCollection()
		c.SetJSONLDId(idp)
		it := streams.NewActivityStreamsItemsProperty()
		it.AppendActivityStreamsNote(streams.NewActivityStreamsNote())
		it.AppendIRI(vfURL("stored.member"))
		c.SetActivityStreamsItems(it)
		return c
	case 10: // hostile: an OrderedCollection with such a member
		c := streams.NewActivityStreamsOrderedCollection()
		c.SetJSONLDId(idp)
		oi := streams.NewActivityStreamsOrderedItemsProperty()
		oi.AppendIRI(vfURL("stored.member"))
		oi.AppendActivityStreamsNote(streams.NewActivityStreamsNote())
		c.SetActivityStreamsOrderedItems(oi)
		return c
	case 1:
		items := w.colItems
		if w.membersOf != nil {
			items = w.membersOf(id.String())
		}
		c := vfCollection(items)
		c.SetJSONLDId(idp)
		return c
	case 2:
		c := streams.NewActivityStreamsOrderedCollection()
		items := w.colItems
		if w.membersOf != nil {
			items = w.membersOf(id.String())
		}
		if items != nil {
			oi := streams.NewActivityStreamsOrderedItemsProperty()
			for _, u := range items {
				oi.AppendIRI(u)
			}
			c.SetActivityStreamsOrderedItems(oi)
		}
		c.SetJSONLDId(idp)
		return c
	case 3:
		f := streams.NewActivityStreamsFollow()
		f.SetJSONLDId(idp)
		ap := streams.NewActivityStreamsActorProperty()
		fa := vfURL("stored.follow.actor")
		ap.AppendIRI(fa)
		f.SetActivityStreamsActor(ap)
		op := streams.NewActivityStreamsObjectProperty()
		n := w.storedFollowN
		if n == 0 {
			n = 1
		}
		w.storedFollowSeen = true
		w.storedFollowActor = fa.String()
		w.storedFollowObjects = nil
		for i := 0; i < n; i++ {
			fo := vfURL("stored.follow.object")
			op.AppendIRI(fo)
			w.storedFollowObjects = append(w.storedFollowObjects, fo.String())
		}
		f.SetActivityStreamsObject(op)
		return f
	case 4:
		p := streams.NewActivityStreamsPerson()
		p.SetJSONLDId(idp)
		ib := streams.NewActivityStreamsInboxProperty()
		ib.SetIRI(vfURL("stored.person.inbox"))
		p.SetActivityStreamsInbox(ib)
		return p
	}
	n := streams.NewActivityStreamsNote()
	n.SetJSONLDId(idp)
	if w.likesKind != 0 {
		var pre []*url.URL
		for i := 0; i < w.likesPre; i++ {
			pre = append(pre, vfURL("likes.pre"))
		}
		lp := streams.NewActivityStreamsLikesProperty()
		sp := streams.NewActivityStreamsSharesProperty()
		if w.likesKind == 1 {
			lp.SetActivityStreamsCollection(vfCollection(pre))
			sp.SetActivityStreamsCollection(vfCollection(pre))
		} else {
			mk := func() vocab.ActivityStreamsOrderedCollection {
				oc := streams.NewActivityStreamsOrderedCollection()
				if pre != nil {
					oi := streams.NewActivityStreamsOrderedItemsProperty()
					for _, u := range pre {
						oi.AppendIRI(u)
					}
					oc.SetActivityStreamsOrderedItems(oi)
				}
				return oc
			}
			lp.SetActivityStreamsOrderedCollection(mk())
			sp.SetActivityStreamsOrderedCollection(mk())
		}
		n.SetActivityStreamsLikes(lp)
		n.SetActivityStreamsShares(sp)
	}
	return n
}

// vfRemoteDefault: documents served by the remote web; the kind is an
// uninterpreted function of the IRI: 0 Person with inbox, 1 unreachable,
// 2 garbled, 3 Note with that id, 4 Follow, 5 unknown type.
func (w *vfWorld) vfRemoteDefault(iri string) (interface{}, int) {
	maxKind := 5
	if w.hostile {
		maxKind = 10
	}
	rk := vfUFInt("remoteKind", iri, 0, maxKind)
	if w.smallWorld {
		vfAssume(rk == 0 || rk == 1 || rk == 3, "small world: remote documents are actors, Notes or unreachable")
	}
	switch rk {
	case 6: // hostile: actor document without inbox
		return vfDoc("Person", "id", iri), 0
	case 7: // hostile: Follow without actor
		return vfDoc("Follow", "id", iri, "object", vfIRI("remote.follow.object")), 0
	case 8: // hostile: Follow without object
		return vfDoc("Follow", "id", iri, "actor", vfIRI("remote.follow.actor")), 0
	case 9: // hostile: an activity without actor and without id
		return vfDoc("Like", "object", vfIRI("remote.like.object")), 0
	case 10: // hostile: wrong-kind members
		return vfDoc("Person", "id", vfFloat("remote.id.number"), "inbox", map[string]interface{}{"type": "Note"}), 0
	case 1:
		return nil, 1
	case 2:
		return nil, 2
	case 3:
		return vfDoc("Note", "id", iri), 0
	case 4:
		return vfDoc("Follow", "id", iri, "actor", vfIRI("remote.follow.actor"), "object", vfIRI("remote.follow.object")), 0
	case 5:
		return vfDoc("VfUnknownType", "id", iri), 0
	}
	return vfDoc("Person", "id", iri, "inbox", vfIRI("remote.inbox")), 0
}

func vfCtx() context.Context { return context.Background() }
