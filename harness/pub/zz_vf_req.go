//go:build verif

package pub

// Request-level scenarios shared by C07 (nothing before authentication /
// authorisation / protocol checks) and C10 (each outcome reported exactly once,
// with the documented status).

import (
	"net/http"
	"net/url"
)

// the ActivityStreams media types (ActivityPub §3.2 and the spellings the library documents)
var vfMediaTypes = []string{
	"application/activity+json",
	"application/ld+json;profile=https://www.w3.org/ns/activitystreams",
	"application/ld+json;profile=\"https://www.w3.org/ns/activitystreams\"",
	"application/ld+json ;profile=https://www.w3.org/ns/activitystreams",
	"application/ld+json ;profile=\"https://www.w3.org/ns/activitystreams\"",
	"application/ld+json ; profile=https://www.w3.org/ns/activitystreams",
	"application/ld+json ; profile=\"https://www.w3.org/ns/activitystreams\"",
	"application/ld+json; profile=https://www.w3.org/ns/activitystreams",
	"application/ld+json; profile=\"https://www.w3.org/ns/activitystreams\"",
}

func vfIsASMedia(h string) bool {
	r := false
	for _, m := range vfMediaTypes {
		r = vfOr(r, vfContains(h, m))
	}
	return r
}

const (
	vfEPPostInbox = iota
	vfEPPostOutbox
	vfEPGetInbox
	vfEPGetOutbox
	vfEPHandler
)

type vfReqResult struct {
	w       *vfWorld
	rw      *vfWriter
	handled bool
	err     error
	ep      int
	social  bool
	fed     bool
	isAP    bool // reference classification of the request
	method  string
	act     *vfAct
	bodyKind int
}

// vfSideEffectKind reports whether an event is a Database/Transport call or an
// application side-effect callback (activity callbacks, default callback,
// forwarding filter, callback tables).
func vfSideEffectKind(k string) bool {
	if len(k) > 3 && (k[:3] == "db." || k[:3] == "tp.") {
		return true
	}
	switch k {
	case "app.AuthenticateGetInbox", "app.AuthenticateGetOutbox", "app.AuthenticatePostInbox", "app.AuthenticatePostOutbox",
		"w.WriteHeader", "w.Write", "s2s.Blocked", "app.PostInboxRequestBodyHook", "app.PostOutboxRequestBodyHook":
		return false
	}
	return true
}

// vfAppKind: any call into the application at all (everything but the writer).
func vfAppKind(k string) bool { return k != "w.WriteHeader" && k != "w.Write" }

// vfRunRequest performs one request against a fresh world.
//   classify: method and header are symbolic strings (else a valid request)
//   bodyKind: 0..12 index into vfInboxTypes, 13 bare Note, 14 unknown type, 15 garbled bytes, 16 id variants (see idKind)
type vfReqOpts struct {
	classify  bool
	bodyKind  int
	idKind    int
	nObj      int // objects on the activity (default 1); -1 = none
	noTarget  bool
	noActor   bool // the activity names no actor: member absent or an empty array
	configure func(w *vfWorld)
}

func vfRunRequest(ep int, o vfReqOpts) *vfReqResult {
	classify, bodyKind, idKind, configure := o.classify, o.bodyKind, o.idKind, o.configure
	w := vfNewWorld()
	w.idKind = idKind
	res := &vfReqResult{w: w, ep: ep, bodyKind: bodyKind}
	nObj := 1
	if o.nObj > 0 {
		nObj = o.nObj
	} else if o.nObj < 0 {
		nObj = 0
	}
	w.defaultStore = true
	w.remote = w.vfRemoteDefault
	w.cbMode = 1
	w.now = vfTime("now")
	switch vfChoose("protocols", 3) {
	case 0:
		res.social, res.fed = true, true
	case 1:
		res.social = true
	case 2:
		res.fed = true
	}
	if ep == vfEPGetInbox {
		// GetInbox is served by the FederatingProtocol: only meaningful on a federating actor
		vfAssume(res.fed, "GetInbox requires the federating protocol side (an actor without it has no s2s delegate)")
	}
	w.authMode = vfChoose("auth", 4)
	w.needBlk = ep == vfEPPostInbox
	if w.needBlk {
		w.blockMode = vfChoose("block", 3)
	}
	if configure != nil {
		configure(w)
	}
	method, hdr := "POST", vfCT
	if ep >= vfEPGetInbox {
		method = "GET"
	}
	other := "" // the header that must NOT matter for this method
	if classify {
		method = vfString("method")
		hdr = vfString("header")
		other = vfString("other-header")
	}
	res.method = method
	wantMethod := "POST"
	if ep >= vfEPGetInbox {
		wantMethod = "GET"
	}
	res.isAP = vfAnd(vfStrEq(method, wantMethod), vfIsASMedia(hdr))
	var body []byte
	if ep <= vfEPPostOutbox {
		switch {
		case bodyKind <= 12:
			typ := vfInboxTypes[bodyKind]
			res.act = vfActivity(typ, 1, nObj, 2, "Note")
			res.act.tree["to"] = vfIRI("act.to")
			if o.noTarget {
				// missing = absent, or present as an empty array
				if vfChoose("target.missing", 2) == 0 {
					delete(res.act.tree, "target")
				} else {
					res.act.tree["target"] = []interface{}{}
				}
			}
			if o.noActor {
				if vfChoose("actor.missing", 2) == 0 {
					delete(res.act.tree, "actor")
				} else {
					res.act.tree["actor"] = []interface{}{}
				}
			}
			if nObj == 0 && vfChoose("object.missing", 2) == 1 {
				res.act.tree["object"] = []interface{}{}
			}
			w.missingReq = vfMissingRequired(typ, ep, nObj == 0, o.noTarget)
			vfApplyIdKind(res.act.tree, idKind)
			body = vfMarshal(res.act.tree)
		case bodyKind == 13:
			body = vfMarshal(vfDoc("Note", "id", vfIRI("note.id"), "to", vfIRI("note.to")))
		case bodyKind == 14:
			body = vfMarshal(vfDoc("VfUnknownType", "id", vfIRI("unk.id")))
		default:
			body = vfGarbled()
		}
	}
	actor := w.actor(res.social, res.fed)
	res.rw = vfNewWriter(w)
	var u = w.inboxIRI
	if ep == vfEPPostOutbox || ep == vfEPGetOutbox {
		u = w.outboxIRI
	}
	var req *http.Request
	if ep <= vfEPPostOutbox {
		req = vfRequest(method, hdr, other, u, body)
	} else {
		req = vfRequest(method, other, hdr, u, nil)
	}
	switch ep {
	case vfEPPostInbox:
		res.handled, res.err = actor.PostInbox(vfCtx(), res.rw, req)
	case vfEPPostOutbox:
		res.handled, res.err = actor.PostOutbox(vfCtx(), res.rw, req)
	case vfEPGetInbox:
		w.getInboxVal = vfPage([]*url.URL{vfURL("page.item"), vfURL("page.item")})
		res.handled, res.err = actor.GetInbox(vfCtx(), res.rw, req)
	case vfEPGetOutbox:
		w.getOutboxVal = vfPage([]*url.URL{vfURL("page.item")})
		res.handled, res.err = actor.GetOutbox(vfCtx(), res.rw, req)
	case vfEPHandler:
		w.authed = true // the handler has no authentication step
		h := NewActivityStreamsHandler(&vfDB{w: w}, &vfClock{w: w})
		res.handled, res.err = h(vfCtx(), res.rw, req)
	}
	return res
}

// vfApplyIdKind rewrites the activity's id member: 0 absolute IRI (unchanged),
// 1 absent, 2 null, 3 empty string, 4 number, 5 object, 6 relative reference.
func vfApplyIdKind(tree map[string]interface{}, idKind int) {
	switch idKind {
	case 1:
		delete(tree, "id")
	case 2:
		tree["id"] = nil
	case 3:
		tree["id"] = ""
	case 4:
		tree["id"] = vfFloat("id.number")
	case 5:
		tree["id"] = map[string]interface{}{"href": vfIRI("id.obj")}
	case 6:
		tree["id"] = "relative/ref"
	}
}

// ---------------------------------------------------------------------
// C07 assertions

func vfC07Assert(r *vfReqResult) {
	w := r.w
	enabled := true
	if r.ep == vfEPPostInbox {
		enabled = r.fed
	} else if r.ep == vfEPPostOutbox {
		enabled = r.social
	}
	nSide, nApp := 0, 0
	for _, e := range w.log {
		if vfAppKind(e.kind) {
			nApp++
		}
		if vfSideEffectKind(e.kind) {
			nSide++
			vfAssert(e.authed, "side-effect-before-authentication:"+e.kind)
			if w.needBlk {
				vfAssert(e.unblk, "side-effect-before-block-check:"+e.kind)
			}
		}
	}
	// not an ActivityPub request: not handled, nothing written, nothing called
	if !r.isAP {
		vfCover("not-activitypub")
		vfAssert(!r.handled, "non-activitypub-request-reported-as-handled")
		vfAssert(r.err == nil, "non-activitypub-request-returned-error")
		vfAssert(len(w.log) == 0, "non-activitypub-request-had-an-effect")
		return
	}
	vfCover("activitypub")
	if !enabled {
		vfCover("disabled")
		vfAssert(r.handled && r.err == nil, "disabled-protocol-not-handled")
		vfAssert(len(r.rw.codes) == 1 && r.rw.codes[0] == 405, "disabled-protocol-not-405")
		vfAssert(nApp == 0, "disabled-protocol-consulted-application")
		return
	}
	if w.authMode != 0 && r.ep != vfEPHandler {
		vfCover("unauthenticated")
		vfAssert(nSide == 0, "side-effect-without-authentication")
	}
	if w.needBlk && w.blockMode != 0 {
		vfAssert(nSide == 0, "side-effect-although-blocked")
	}
}

// ---------------------------------------------------------------------
// C10 assertions

func vfC10Assert(r *vfReqResult) {
	w := r.w
	rw := r.rw
	enabled := true
	if r.ep == vfEPPostInbox {
		enabled = r.fed
	} else if r.ep == vfEPPostOutbox {
		enabled = r.social
	}
	nWH := len(rw.codes)
	nW := len(rw.bodies)
	vfLog("C10 outcome: handled", r.handled, "err", r.err, "codes", rw.codes, "writes", nW, "auth", w.authMode, "block", w.blockMode, "social", r.social, "fed", r.fed, "inboxSeen")
	libWH := nWH // status writes by the library (the application's own 401 on denial is not the library's)
	if w.authMode == 1 && w.count("app.AuthenticatePostInbox")+w.count("app.AuthenticatePostOutbox")+w.count("app.AuthenticateGetInbox")+w.count("app.AuthenticateGetOutbox") > 0 {
		libWH--
	}
	switch {
	case !r.handled:
		vfCover("not-handled")
		vfAssert(r.err == nil, "not-handled-with-error")
		vfAssert(nWH == 0 && nW == 0 && len(rw.hdr) == 0, "not-handled-but-something-written")
	case r.err != nil:
		vfCover("handled-error")
		vfAssert(libWH == 0 && nW == 0, "error-returned-but-library-wrote-a-response")
	default:
		vfCover("handled-ok")
		vfAssert(nWH == 1, "handled-without-error-but-not-exactly-one-status")
	}
	// a well-formed activity that only lacks a required object/target, from an authenticated and
	// not blocked sender, with no injected fault, is ANSWERED (400): it is not an error of the request
	if enabled && w.authMode == 0 && w.nFaults == 0 && r.handled && r.bodyKind <= 12 && r.act != nil && r.idKind() == 0 && r.missingRequired() &&
		(r.ep == vfEPPostOutbox || (r.ep == vfEPPostInbox && w.blockMode == 0)) {
		if r.ep == vfEPPostOutbox {
			vfAssert(r.err == nil, "missing-object-or-target-reported-as-an-error-instead-of-400")
		} else {
			vfAssert(vfOr(r.err == nil, w.inboxSeen(r.act.id)), "missing-object-or-target-reported-as-an-error-instead-of-400")
		}
	}
	if !r.handled || r.err != nil || nWH != 1 {
		return
	}
	code := rw.codes[0]
	if !enabled {
		vfAssert(code == 405, "disabled-protocol-status-not-405")
		return
	}
	if w.authMode == 1 && r.ep != vfEPHandler {
		return // the application's own answer
	}
	switch r.ep {
	case vfEPPostInbox:
		if w.blockMode == 1 {
			if r.idKind() != 0 || r.bodyKind == 14 {
				// both a 400 condition and a blocked sender: either answer is documented
				vfAssert(code == 403 || code == 400, "blocked-sender-with-bad-body-neither-403-nor-400")
				return
			}
			vfAssert(code == 403, "blocked-sender-not-403")
			return
		}
		want := 200
		if r.bodyKind == 14 {
			want = 400 // unknown type
		}
		if r.idKind() != 0 {
			want = 400 // no usable id
		}
		if r.bodyKind <= 12 && r.missingRequired() && !w.inboxSeen(r.act.id) {
			want = 400 // (a duplicate delivery is accepted without running the callbacks)
		}
		vfAssert(code == want, "inbox-post-status")
	case vfEPPostOutbox:
		want := 201
		if r.bodyKind == 14 {
			want = 400
		}
		if r.bodyKind <= 12 && r.missingRequired() {
			want = 400
		}
		vfAssert(code == want, "outbox-post-status")
		if code == 201 {
			loc := rw.hdr.Get("Location")
			ids := w.newIDs
			vfAssert(len(ids) > 0 && loc == ids[0].String(), "location-is-not-the-new-activity-id")
		}
	case vfEPGetInbox, vfEPGetOutbox:
		vfAssert(code == 200, "get-status-not-200")
		vfAssert(nW == 1, "get-body-not-written-once")
	case vfEPHandler:
		vfAssert(code == 200 || code == 410, "handler-status")
	}
}

func (r *vfReqResult) idKind() int { return r.w.idKind }

// missingRequired: the activity lacks an object/target its default callback requires.
func (r *vfReqResult) missingRequired() bool { return r.w.missingReq }

// vfMissingRequired: which default callbacks require object / target.
func vfMissingRequired(typ string, ep int, noObj, noTarget bool) bool {
	needObj := false
	switch typ {
	case "Create", "Update", "Delete", "Follow", "Add", "Remove", "Like", "Undo", "Block":
		needObj = true
	}
	if ep == vfEPPostInbox && typ == "Announce" {
		needObj = false
	}
	if ep == vfEPPostOutbox && (typ == "Accept" || typ == "Reject" || typ == "Announce") {
		needObj = false
	}
	needTarget := typ == "Add" || typ == "Remove"
	return (needObj && noObj) || (needTarget && noTarget)
}
