//go:build verif

package pub

// C08: concurrent requests lose no update, none blocks for ever, a duplicate is processed once.
//
// Two requests run on two simulated threads through ONE Actor against a stateful application
// Database whose Lock/Unlock give mutual exclusion per id (blocking).  Every Database / Transport /
// application-callback call is a scheduling point, so the engine enumerates all interleavings at
// that granularity up to the preemption bound; the ids in the requests are symbolic, so "same
// activity twice", "same object", "same target in another order" are satisfying assignments, not
// scenarios.  Oracle: the same two requests executed one after the other on a second, fresh copy
// of the world - every collection must hold the same ids (as multisets), the same application
// callbacks must have run equally often, the same deliveries must have been made.  A state in
// which no thread can continue is a deadlock.

import (
	"context"
	"errors"
	"net/http"
	"net/url"
	"time"

	"github.com/go-fed/activity/streams"
	"github.com/go-fed/activity/streams/vocab"
)

type vfReqCtx struct{ req string }

func (vfReqCtx) Deadline() (time.Time, bool)       { return time.Time{}, false }
func (vfReqCtx) Done() <-chan struct{}             { return nil }
func (vfReqCtx) Err() error                        { return nil }
func (vfReqCtx) Value(key interface{}) interface{} { return nil }

func vfReqOf(c context.Context) string {
	if x, ok := c.(vfReqCtx); ok {
		return x.req
	}
	return "?"
}

// a stored entity
type vfEnt struct {
	kind   string // Note | Collection | OrderedCollection | Activity
	items  []string
	likes  []string
	shares []string
	likesK string // "" (absent) | Collection | OrderedCollection
	actor  string   // Follow: its actor
	object string   // Follow: its object
}

type vfHeldLock struct{ id, req string }

type vfCW struct {
	name     string
	actor    *url.URL
	inboxU   *url.URL
	outboxU  *url.URL
	ents     map[string]*vfEnt
	order    []string // keys of ents in creation order
	inbox    []string
	outbox   []string
	held     []vfHeldLock
	cbs      []string // application callbacks run: activity id
	cbKinds  []string
	batches  [][]string // per BatchDeliver: payload id followed by the recipients
	created  []string
	newIDn   map[string]int
	onFollow OnFollowBehavior
	errs     []string
}

func vfNewCW(name string, actor, inbox, outbox *url.URL) *vfCW {
	w := &vfCW{name: name, actor: actor, inboxU: inbox, outboxU: outbox, ents: map[string]*vfEnt{}, newIDn: map[string]int{},
		onFollow: OnFollowAutomaticallyAccept}
	w.put(actor.String(), &vfEnt{kind: "Person"})
	return w
}

func (w *vfCW) put(id string, e *vfEnt) {
	if _, ok := w.ents[id]; !ok {
		w.order = append(w.order, id)
	}
	w.ents[id] = e
}

func (w *vfCW) followersID() string { return vfUFIRI("followersOf", w.actor.String()) }
func (w *vfCW) followingID() string { return vfUFIRI("followingOf", w.actor.String()) }
func (w *vfCW) likedID() string     { return vfUFIRI("likedOf", w.actor.String()) }

func vfMustURL(s string) *url.URL {
	u, err := url.Parse(s)
	if err != nil {
		panic("vfMustURL: " + err.Error())
	}
	return u
}

// ---- Database with blocking per-id locks; every call is a scheduling point

type vfCDB struct{ w *vfCW }

var _ Database = (*vfCDB)(nil)

func (w *vfCW) isHeld(id string) bool {
	for _, h := range w.held {
		if h.id == id {
			return true
		}
	}
	return false
}

func (d *vfCDB) Lock(c context.Context, id *url.URL) error {
	w, s, r := d.w, id.String(), vfReqOf(c)
	vfGate("db.Lock", r, nil)
	vfAwait(func() bool { return !w.isHeld(s) }, func() { w.held = append(w.held, vfHeldLock{s, r}) })
	return nil
}

func (d *vfCDB) Unlock(c context.Context, id *url.URL) error {
	w, s, r := d.w, id.String(), vfReqOf(c)
	vfGate("db.Unlock", r, func() {
		vfAtomic(func() {
			for i, h := range w.held {
				if h.id == s {
					w.held = append(w.held[:i:i], w.held[i+1:]...)
					return
				}
			}
		})
	})
	return nil
}

// vfNoGate: a call that commutes with every call of the other request (reads of data no request
// changes, appends to logs that are compared as multisets) is not a scheduling point; its effect on
// the harness state is made under the harness mutex.
func vfNoGate(f func()) {
	if f != nil {
		vfAtomic(f)
	}
}

func vfHas(l []string, s string) bool {
	for _, x := range l {
		if x == s {
			return true
		}
	}
	return false
}

func (d *vfCDB) InboxContains(c context.Context, inbox, id *url.URL) (r bool, err error) {
	vfGate("db.InboxContains", vfReqOf(c), func() { r = vfHas(d.w.inbox, id.String()) })
	return
}

func vfPageOf(ids []string) vocab.ActivityStreamsOrderedCollectionPage {
	var us []*url.URL
	for _, s := range ids {
		us = append(us, vfMustURL(s))
	}
	if us == nil {
		us = []*url.URL{}
	}
	return vfPage(us)
}

func (d *vfCDB) GetInbox(c context.Context, inboxIRI *url.URL) (p vocab.ActivityStreamsOrderedCollectionPage, err error) {
	vfGate("db.GetInbox", vfReqOf(c), func() { p = vfPageOf(d.w.inbox) })
	return
}

func (d *vfCDB) SetInbox(c context.Context, inbox vocab.ActivityStreamsOrderedCollectionPage) error {
	vfGate("db.SetInbox", vfReqOf(c), func() { d.w.inbox = vfItemIDs(inbox) })
	return nil
}

func (d *vfCDB) GetOutbox(c context.Context, outboxIRI *url.URL) (p vocab.ActivityStreamsOrderedCollectionPage, err error) {
	vfGate("db.GetOutbox", vfReqOf(c), func() { p = vfPageOf(d.w.outbox) })
	return
}

func (d *vfCDB) SetOutbox(c context.Context, outbox vocab.ActivityStreamsOrderedCollectionPage) error {
	vfGate("db.SetOutbox", vfReqOf(c), func() { d.w.outbox = vfItemIDs(outbox) })
	return nil
}

func (d *vfCDB) Owns(c context.Context, id *url.URL) (r bool, err error) {
	vfNoGate(func() {
		e := d.w.ents[id.String()]
		r = e != nil && e.kind != "Activity"
	})
	return
}

func (d *vfCDB) ActorForOutbox(c context.Context, outboxIRI *url.URL) (*url.URL, error) {
	vfNoGate(nil)
	return d.w.actor, nil
}
func (d *vfCDB) ActorForInbox(c context.Context, inboxIRI *url.URL) (*url.URL, error) {
	vfNoGate(nil)
	return d.w.actor, nil
}
func (d *vfCDB) OutboxForInbox(c context.Context, inboxIRI *url.URL) (*url.URL, error) {
	vfNoGate(nil)
	return d.w.outboxU, nil
}
func (d *vfCDB) InboxForActor(c context.Context, actorIRI *url.URL) (*url.URL, error) {
	vfNoGate(nil)
	return vfMustURL(vfUFIRI("inboxOf", actorIRI.String())), nil
}

func (d *vfCDB) Exists(c context.Context, id *url.URL) (r bool, err error) {
	vfGate("db.Exists", vfReqOf(c), func() { r = d.w.ents[id.String()] != nil })
	return
}

func vfColOf(kind, id string, items []string) vocab.Type {
	idp := streams.NewJSONLDIdProperty()
	idp.Set(vfMustURL(id))
	if kind == "OrderedCollection" {
		c := streams.NewActivityStreamsOrderedCollection()
		c.SetJSONLDId(idp)
		if len(items) > 0 {
			oi := streams.NewActivityStreamsOrderedItemsProperty()
			for _, s := range items {
				oi.AppendIRI(vfMustURL(s))
			}
			c.SetActivityStreamsOrderedItems(oi)
		}
		return c
	}
	c := streams.NewActivityStreamsCollection()
	c.SetJSONLDId(idp)
	if len(items) > 0 {
		it := streams.NewActivityStreamsItemsProperty()
		for _, s := range items {
			it.AppendIRI(vfMustURL(s))
		}
		c.SetActivityStreamsItems(it)
	}
	return c
}

// a fresh copy of the stored value (a Database hands out copies: two readers must not share one object)
func (w *vfCW) load(id string) vocab.Type {
	e := w.ents[id]
	if e == nil {
		return nil
	}
	switch e.kind {
	case "Collection", "OrderedCollection":
		return vfColOf(e.kind, id, e.items)
	case "Follow":
		f := streams.NewActivityStreamsFollow()
		idp := streams.NewJSONLDIdProperty()
		idp.Set(vfMustURL(id))
		f.SetJSONLDId(idp)
		ap := streams.NewActivityStreamsActorProperty()
		ap.AppendIRI(vfMustURL(e.actor))
		f.SetActivityStreamsActor(ap)
		op := streams.NewActivityStreamsObjectProperty()
		op.AppendIRI(vfMustURL(e.object))
		f.SetActivityStreamsObject(op)
		return f
	case "Person":
		pn := streams.NewActivityStreamsPerson()
		idp := streams.NewJSONLDIdProperty()
		idp.Set(vfMustURL(id))
		pn.SetJSONLDId(idp)
		ib := streams.NewActivityStreamsInboxProperty()
		ib.SetIRI(w.inboxU)
		pn.SetActivityStreamsInbox(ib)
		return pn
	case "Note":
		n := streams.NewActivityStreamsNote()
		idp := streams.NewJSONLDIdProperty()
		idp.Set(vfMustURL(id))
		n.SetJSONLDId(idp)
		if e.likesK != "" {
			lp := streams.NewActivityStreamsLikesProperty()
			col := vfColOf(e.likesK, vfUFIRI("likesOf", id), e.likes)
			if e.likesK == "OrderedCollection" {
				lp.SetActivityStreamsOrderedCollection(col.(vocab.ActivityStreamsOrderedCollection))
			} else {
				lp.SetActivityStreamsCollection(col.(vocab.ActivityStreamsCollection))
			}
			n.SetActivityStreamsLikes(lp)
			sp := streams.NewActivityStreamsSharesProperty()
			scol := vfColOf(e.likesK, vfUFIRI("sharesOf", id), e.shares)
			if e.likesK == "OrderedCollection" {
				sp.SetActivityStreamsOrderedCollection(scol.(vocab.ActivityStreamsOrderedCollection))
			} else {
				sp.SetActivityStreamsCollection(scol.(vocab.ActivityStreamsCollection))
			}
			n.SetActivityStreamsShares(sp)
		}
		return n
	}
	return nil
}

func (w *vfCW) save(t vocab.Type) {
	id := vfIdOf(t)
	e := w.ents[id]
	if e == nil {
		e = &vfEnt{kind: "Activity"}
		w.put(id, e)
		return
	}
	switch e.kind {
	case "Collection", "OrderedCollection":
		e.items = vfItemIDs(t)
	case "Note":
		if l, ok := t.(likeser); ok {
			if lp := l.GetActivityStreamsLikes(); lp != nil && lp.GetType() != nil {
				e.likes = vfItemIDs(lp.GetType())
				if e.likesK == "" {
					e.likesK = lp.GetType().GetTypeName()
				}
			}
		}
		if s, ok := t.(shareser); ok {
			if sp := s.GetActivityStreamsShares(); sp != nil && sp.GetType() != nil {
				e.shares = vfItemIDs(sp.GetType())
				if e.likesK == "" {
					e.likesK = sp.GetType().GetTypeName()
				}
			}
		}
	}
}

func (d *vfCDB) Get(c context.Context, id *url.URL) (t vocab.Type, err error) {
	vfGate("db.Get", vfReqOf(c), func() {
		t = d.w.load(id.String())
		if t == nil {
			err = errors.New("vf: not found")
		}
	})
	return
}

func (d *vfCDB) Create(c context.Context, asType vocab.Type) error {
	vfGate("db.Create", vfReqOf(c), func() {
		id := vfIdOf(asType)
		d.w.created = append(d.w.created, id)
		if d.w.ents[id] == nil {
			d.w.put(id, &vfEnt{kind: "Activity"})
		}
	})
	return nil
}

func (d *vfCDB) Update(c context.Context, asType vocab.Type) error {
	vfGate("db.Update", vfReqOf(c), func() { d.w.save(asType) })
	return nil
}

func (d *vfCDB) Delete(c context.Context, id *url.URL) error {
	vfNoGate(nil)
	return nil
}

// fresh ids: a function of (request, ordinal) so that the concurrent and the sequential world agree
func (d *vfCDB) NewID(c context.Context, t vocab.Type) (u *url.URL, err error) {
	r := vfReqOf(c)
	vfNoGate(func() {
		k := d.w.newIDn[r]
		d.w.newIDn[r] = k + 1
		u = vfMustURL(vfUFIRI("newid", r+"#"+string(rune('0'+k))))
	})
	return
}

func (d *vfCDB) actorCol(c context.Context, what, id string) (col vocab.ActivityStreamsCollection, err error) {
	vfGate(what, vfReqOf(c), func() {
		if d.w.ents[id] == nil {
			d.w.put(id, &vfEnt{kind: "Collection"})
		}
		col = d.w.load(id).(vocab.ActivityStreamsCollection)
	})
	return
}

func (d *vfCDB) Followers(c context.Context, actorIRI *url.URL) (vocab.ActivityStreamsCollection, error) {
	return d.actorCol(c, "db.Followers", d.w.followersID())
}
func (d *vfCDB) Following(c context.Context, actorIRI *url.URL) (vocab.ActivityStreamsCollection, error) {
	return d.actorCol(c, "db.Following", d.w.followingID())
}
func (d *vfCDB) Liked(c context.Context, actorIRI *url.URL) (vocab.ActivityStreamsCollection, error) {
	return d.actorCol(c, "db.Liked", d.w.likedID())
}

// ---- Transport / application

type vfCTransport struct{ w *vfCW }

func (t *vfCTransport) Dereference(c context.Context, iri *url.URL) ([]byte, error) {
	vfNoGate(nil)
	return nil, errors.New("vf: unreachable")
}
func (t *vfCTransport) Deliver(c context.Context, b []byte, to *url.URL) error {
	return t.BatchDeliver(c, b, []*url.URL{to})
}
func (t *vfCTransport) BatchDeliver(c context.Context, b []byte, recipients []*url.URL) error {
	vfNoGate(func() {
		rec := []string{"?"}
		if m, ok := vfTree(b).(map[string]interface{}); ok {
			if s, ok := m["id"].(string); ok {
				rec[0] = s
			}
		}
		for _, r := range recipients {
			rec = append(rec, r.String())
		}
		t.w.batches = append(t.w.batches, rec)
	})
	return nil
}

type vfCApp struct{ w *vfCW }

var _ CommonBehavior = (*vfCApp)(nil)
var _ FederatingProtocol = (*vfCApp)(nil)

func (a *vfCApp) AuthenticateGetInbox(c context.Context, rw http.ResponseWriter, r *http.Request) (context.Context, bool, error) {
	return c, true, nil
}
func (a *vfCApp) AuthenticateGetOutbox(c context.Context, rw http.ResponseWriter, r *http.Request) (context.Context, bool, error) {
	return c, true, nil
}
func (a *vfCApp) AuthenticatePostInbox(c context.Context, rw http.ResponseWriter, r *http.Request) (context.Context, bool, error) {
	return c, true, nil
}
func (a *vfCApp) GetOutbox(c context.Context, r *http.Request) (vocab.ActivityStreamsOrderedCollectionPage, error) {
	return vfPageOf(a.w.outbox), nil
}
func (a *vfCApp) GetInbox(c context.Context, r *http.Request) (vocab.ActivityStreamsOrderedCollectionPage, error) {
	return vfPageOf(a.w.inbox), nil
}
func (a *vfCApp) NewTransport(c context.Context, actorBoxIRI *url.URL, gofedAgent string) (Transport, error) {
	return &vfCTransport{a.w}, nil
}
func (a *vfCApp) PostInboxRequestBodyHook(c context.Context, r *http.Request, activity Activity) (context.Context, error) {
	return c, nil
}
func (a *vfCApp) Blocked(c context.Context, actorIRIs []*url.URL) (bool, error) { return false, nil }

func (a *vfCApp) cb(c context.Context, kind string, t vocab.Type) error {
	vfNoGate(func() {
		a.w.cbs = append(a.w.cbs, vfIdOf(t))
		a.w.cbKinds = append(a.w.cbKinds, kind)
	})
	return nil
}

func (a *vfCApp) FederatingCallbacks(c context.Context) (FederatingWrappedCallbacks, []interface{}, error) {
	var wr FederatingWrappedCallbacks
	wr.OnFollow = a.w.onFollow
	wr.Create = func(c context.Context, x vocab.ActivityStreamsCreate) error { return a.cb(c, "Create", x) }
	wr.Follow = func(c context.Context, x vocab.ActivityStreamsFollow) error { return a.cb(c, "Follow", x) }
	wr.Accept = func(c context.Context, x vocab.ActivityStreamsAccept) error { return a.cb(c, "Accept", x) }
	wr.Add = func(c context.Context, x vocab.ActivityStreamsAdd) error { return a.cb(c, "Add", x) }
	wr.Remove = func(c context.Context, x vocab.ActivityStreamsRemove) error { return a.cb(c, "Remove", x) }
	wr.Like = func(c context.Context, x vocab.ActivityStreamsLike) error { return a.cb(c, "Like", x) }
	wr.Announce = func(c context.Context, x vocab.ActivityStreamsAnnounce) error { return a.cb(c, "Announce", x) }
	return wr, nil, nil
}
func (a *vfCApp) DefaultCallback(c context.Context, activity Activity) error {
	return a.cb(c, "Default", activity)
}
func (a *vfCApp) MaxInboxForwardingRecursionDepth(c context.Context) int { return 1 }
func (a *vfCApp) MaxDeliveryRecursionDepth(c context.Context) int        { return 1 }
func (a *vfCApp) FilterForwarding(c context.Context, potentialRecipients []*url.URL, act Activity) ([]*url.URL, error) {
	vfNoGate(nil)
	return potentialRecipients, nil
}

type vfCSocial struct{ w *vfCW }

var _ SocialProtocol = (*vfCSocial)(nil)

func (a *vfCSocial) PostOutboxRequestBodyHook(c context.Context, r *http.Request, data vocab.Type) (context.Context, error) {
	return c, nil
}
func (a *vfCSocial) AuthenticatePostOutbox(c context.Context, rw http.ResponseWriter, r *http.Request) (context.Context, bool, error) {
	return c, true, nil
}
func (a *vfCSocial) SocialCallbacks(c context.Context) (SocialWrappedCallbacks, []interface{}, error) {
	var wr SocialWrappedCallbacks
	app := &vfCApp{a.w}
	wr.Create = func(c context.Context, x vocab.ActivityStreamsCreate) error { return app.cb(c, "Create", x) }
	wr.Like = func(c context.Context, x vocab.ActivityStreamsLike) error { return app.cb(c, "Like", x) }
	wr.Add = func(c context.Context, x vocab.ActivityStreamsAdd) error { return app.cb(c, "Add", x) }
	return wr, nil, nil
}
func (a *vfCSocial) DefaultCallback(c context.Context, activity Activity) error {
	return (&vfCApp{a.w}).cb(c, "Default", activity)
}

type vfCClock struct{}

func (vfCClock) Now() time.Time { return time.Unix(1500000000, 0) }

type vfCWriter struct {
	hdr   http.Header
	codes []int
}

func (rw *vfCWriter) Header() http.Header         { return rw.hdr }
func (rw *vfCWriter) WriteHeader(code int)        { rw.codes = append(rw.codes, code) }
func (rw *vfCWriter) Write(b []byte) (int, error) { return len(b), nil }

// ---- driving two requests

type vfCReq struct {
	name   string
	outbox bool
	body   map[string]interface{}
}

func (w *vfCW) actorFor() FederatingActor {
	app := &vfCApp{w}
	return NewActor(app, &vfCSocial{w}, app, &vfCDB{w}, vfCClock{})
}

func (w *vfCW) run(a FederatingActor, r *vfCReq) {
	c := vfReqCtx{r.name}
	rw := &vfCWriter{hdr: http.Header{}}
	var err error
	var handled bool
	// every HTTP request has its own URL value
	if r.outbox {
		u := *w.outboxU
		handled, err = a.PostOutbox(c, rw, vfRequest("POST", vfCT, "", &u, vfMarshal(r.body)))
	} else {
		u := *w.inboxU
		handled, err = a.PostInbox(c, rw, vfRequest("POST", vfCT, "", &u, vfMarshal(r.body)))
	}
	vfAtomic(func() {
		if err != nil {
			w.errs = append(w.errs, r.name+": "+err.Error())
		} else if !handled {
			w.errs = append(w.errs, r.name+": not handled")
		}
	})
}

// vfMsEq builds ONE term: a and b hold the same ids equally often.
func vfMsEq(a, b []string) bool {
	if len(a) != len(b) {
		return false
	}
	r := true
	for _, x := range a {
		r = vfAnd(r, vfCount(x, a) == vfCount(x, b))
	}
	for _, x := range b {
		r = vfAnd(r, vfCount(x, a) == vfCount(x, b))
	}
	return r
}

// vfSameOutcome builds ONE term: world wc ended in the same state as the reference world ws.
func vfSameOutcome(wc, ws *vfCW) bool {
	if len(wc.errs) != len(ws.errs) || len(wc.order) != len(ws.order) || len(wc.batches) != len(ws.batches) {
		return false
	}
	r := vfAnd(vfMsEq(wc.inbox, ws.inbox), vfMsEq(wc.outbox, ws.outbox))
	r = vfAnd(r, vfMsEq(wc.order, ws.order))
	for _, id := range ws.order {
		es, ec := ws.ents[id], wc.ents[id]
		if ec == nil {
			return false
		}
		r = vfAnd(r, vfAnd(vfMsEq(ec.items, es.items), vfAnd(vfMsEq(ec.likes, es.likes), vfMsEq(ec.shares, es.shares))))
	}
	r = vfAnd(r, vfAnd(vfMsEq(wc.cbs, ws.cbs), vfMsEq(wc.cbKinds, ws.cbKinds)))
	r = vfAnd(r, vfMsEq(wc.created, ws.created))
	var bc, bs []string
	for _, b := range wc.batches {
		bc = append(bc, b[0])
	}
	for _, b := range ws.batches {
		bs = append(bs, b[0])
	}
	return vfAnd(r, vfMsEq(bc, bs))
}

// vfC08Pair runs r1 || r2 on one world and compares the outcome with r1 ; r2 and with r2 ; r1 on
// fresh copies of the world: it must equal one of them.
func vfC08Pair(mk func(name string) *vfCW, r1, r2 *vfCReq) {
	vfThreads(vfParam("preempt", 2))
	wc := mk("concurrent")
	ac := wc.actorFor()
	done := make(chan int, 2)
	go func() { wc.run(ac, r1); done <- 1 }()
	go func() { wc.run(ac, r2); done <- 2 }()
	<-done
	<-done
	vfCover("both-completed")
	vfAssert(len(wc.held) == 0, "lock-still-held-after-both-requests")
	seq := func(name string, x, y *vfCReq) *vfCW {
		ws := mk(name)
		as := ws.actorFor()
		ws.run(as, x)
		ws.run(as, y)
		return ws
	}
	w12 := seq("sequential-12", r1, r2)
	same := vfSameOutcome(wc, w12)
	if vfSymbolic(same) || !same {
		// only when the first order does not already settle it
		w21 := seq("sequential-21", r2, r1)
		same = vfOr(same, vfSameOutcome(wc, w21))
		vfCover("both-orders-compared")
	}
	vfAssert(same, "final-state-differs-from-both-sequential-executions")
	if len(w12.errs) == 0 {
		vfCover("no-error")
	} else {
		vfLog("errors in the sequential world:", w12.errs)
	}
	vfCover("end")
}

// vfC08Many: like vfC08Pair for n requests; the outcome must equal that of SOME sequential order.
func vfC08Many(mk func(name string) *vfCW, reqs []*vfCReq) {
	vfThreads(vfParam("preempt3", 1))
	wc := mk("concurrent")
	ac := wc.actorFor()
	done := make(chan int, len(reqs))
	for i := range reqs {
		r := reqs[i]
		go func() { wc.run(ac, r); done <- 1 }()
	}
	for range reqs {
		<-done
	}
	vfCover("both-completed")
	vfAssert(len(wc.held) == 0, "lock-still-held-after-the-requests")
	var perms [][]int
	var gen func(cur []int, used int)
	gen = func(cur []int, used int) {
		if len(cur) == len(reqs) {
			perms = append(perms, append([]int(nil), cur...))
			return
		}
		for i := range reqs {
			if used&(1<<uint(i)) == 0 {
				gen(append(cur, i), used|1<<uint(i))
			}
		}
	}
	gen(nil, 0)
	same := false
	noErr := false
	for _, pm := range perms {
		ws := mk("sequential")
		as := ws.actorFor()
		for _, i := range pm {
			ws.run(as, reqs[i])
		}
		noErr = noErr || len(ws.errs) == 0
		same = vfOr(same, vfSameOutcome(wc, ws))
		if !vfSymbolic(same) && same {
			break
		}
	}
	vfAssert(same, "final-state-differs-from-every-sequential-execution")
	if noErr {
		vfCover("no-error")
	}
	vfCover("end")
}

// three Likes of one owned object by three peers, concurrently
func VfC08_ThreeLikes() {
	base := vfC08Base()
	N := vfIRI("ownedNote")
	var ids, peers []string
	for i := 0; i < 3; i++ {
		ids = append(ids, vfIRI("act"))
		peers = append(peers, vfIRI("peer"))
	}
	vfDistinct(ids)
	vfDistinct(peers)
	vfRoles(ids, []string{N}, peers)
	mkw := func(name string) *vfCW {
		w := base(name)
		w.put(N, &vfEnt{kind: "Note", likesK: "Collection"})
		return w
	}
	var reqs []*vfCReq
	for i := 0; i < 3; i++ {
		reqs = append(reqs, &vfCReq{name: "r" + string(rune('1'+i)), body: vfDoc("Like", "id", ids[i], "actor", peers[i], "object", N)})
	}
	vfC08Many(mkw, reqs)
}

// three deliveries of one and the same Create, concurrently
func VfC08_ThreeDuplicates() {
	base := vfC08Base()
	a, n, p := vfIRI("act"), vfIRI("note"), vfIRI("peer")
	vfRoles([]string{a}, []string{n}, []string{p})
	body := vfDoc("Create", "id", a, "actor", p, "to", []interface{}{"https://www.w3.org/ns/activitystreams#Public"},
		"object", map[string]interface{}{"type": "Note", "id": n, "attributedTo": p})
	var reqs []*vfCReq
	for i := 0; i < 3; i++ {
		reqs = append(reqs, &vfCReq{name: "r" + string(rune('1'+i)), body: body})
	}
	vfC08Many(base, reqs)
}

var vfC08Actor, vfC08Inbox, vfC08Outbox string

// vfRoles: ids of different roles are different; within a role they are free to alias.
func vfRoles(groups ...[]string) {
	groups = append(groups, []string{vfC08Actor}, []string{vfC08Inbox}, []string{vfC08Outbox}, []string{"https://www.w3.org/ns/activitystreams#Public"}, []string{"as:Public"}, []string{"Public"},
		[]string{vfUFIRI("followersOf", vfC08Actor)}, []string{vfUFIRI("followingOf", vfC08Actor)}, []string{vfUFIRI("likedOf", vfC08Actor)})
	// contract of NewID: fresh ids
	var fresh []string
	for _, r := range []string{"r1", "r2", "r3"} {
		for k := 0; k < 4; k++ {
			fresh = append(fresh, vfUFIRI("newid", r+"#"+string(rune('0'+k))))
		}
	}
	vfDistinct(fresh)
	groups = append(groups, fresh)
	for i := range groups {
		for j := i + 1; j < len(groups); j++ {
			for _, x := range groups[i] {
				for _, y := range groups[j] {
					vfDistinct([]string{x, y})
				}
			}
		}
	}
}

func vfC08Base() func(string) *vfCW {
	actor, inbox, outbox := vfURL("actor"), vfURL("inbox"), vfURL("outbox")
	vfDistinct([]string{actor.String(), inbox.String(), outbox.String()})
	vfC08Actor, vfC08Inbox, vfC08Outbox = actor.String(), inbox.String(), outbox.String()
	return func(name string) *vfCW { return vfNewCW(name, actor, inbox, outbox) }
}

// two Creates to one inbox: ids free to alias (= the same activity delivered twice, concurrently)
func VfC08_InboxCreates() {
	base := vfC08Base()
	a1, a2 := vfIRI("act"), vfIRI("act")
	n1, n2 := vfIRI("note"), vfIRI("note")
	p := vfIRI("peer")
	vfRoles([]string{a1, a2}, []string{n1, n2}, []string{p})
	mk := func(id, note string) map[string]interface{} {
		return vfDoc("Create", "id", id, "actor", p, "to", []interface{}{"https://www.w3.org/ns/activitystreams#Public"},
			"object", map[string]interface{}{"type": "Note", "id": note, "attributedTo": p, "content": "hi"})
	}
	vfC08Pair(base, &vfCReq{name: "r1", body: mk(a1, n1)}, &vfCReq{name: "r2", body: mk(a2, n2)})
}

// a Create that qualifies for inbox forwarding, delivered twice concurrently or two different ones
func VfC08_InboxForwarded() {
	base := vfC08Base()
	a1, a2 := vfIRI("act"), vfIRI("act")
	n1, n2 := vfIRI("note"), vfIRI("note")
	p, owned, col, member := vfIRI("peer"), vfIRI("ownedNote"), vfIRI("ownedCol"), vfIRI("member")
	vfRoles([]string{a1, a2}, []string{n1, n2}, []string{p}, []string{owned}, []string{col}, []string{member})
	mkw := func(name string) *vfCW {
		w := base(name)
		w.put(owned, &vfEnt{kind: "Note"})
		w.put(col, &vfEnt{kind: "Collection", items: []string{member}})
		return w
	}
	mk := func(id, note string) map[string]interface{} {
		return vfDoc("Create", "id", id, "actor", p, "to", []interface{}{col},
			"object", map[string]interface{}{"type": "Note", "id": note, "attributedTo": p, "inReplyTo": owned})
	}
	vfC08Pair(mkw, &vfCReq{name: "r1", body: mk(a1, n1)}, &vfCReq{name: "r2", body: mk(a2, n2)})
}

// Likes / Announces of owned objects: the objects are free to alias (= the same owned object)
func vfC08Reactions(typ string) {
	base := vfC08Base()
	a1, a2 := vfIRI("act"), vfIRI("act")
	o1, o2 := vfIRI("obj"), vfIRI("obj")
	p1, p2 := vfIRI("peer"), vfIRI("peer")
	N1, N2 := vfIRI("ownedNote"), vfIRI("ownedNote")
	vfDistinct([]string{N1, N2})
	vfDistinct([]string{a1, a2})
	vfRoles([]string{a1, a2}, []string{o1, o2, N1, N2}, []string{p1, p2})
	k := vfChoose("likes.kind", 3)
	mkw := func(name string) *vfCW {
		w := base(name)
		for _, n := range []string{N1, N2} {
			e := &vfEnt{kind: "Note"}
			switch k {
			case 1:
				e.likesK = "Collection"
			case 2:
				e.likesK = "OrderedCollection"
			}
			w.put(n, e)
		}
		return w
	}
	mk := func(id, actor, obj string) map[string]interface{} {
		return vfDoc(typ, "id", id, "actor", actor, "object", obj)
	}
	vfC08Pair(mkw, &vfCReq{name: "r1", body: mk(a1, p1, o1)}, &vfCReq{name: "r2", body: mk(a2, p2, o2)})
}

// a Like and an Announce of owned objects that may be the same object: two different
// read-modify-writes (likes / shares) of one stored value
func VfC08_LikeAndAnnounce() {
	base := vfC08Base()
	a1, a2 := vfIRI("act"), vfIRI("act")
	o1, o2 := vfIRI("obj"), vfIRI("obj")
	p1, p2 := vfIRI("peer"), vfIRI("peer")
	N1, N2 := vfIRI("ownedNote"), vfIRI("ownedNote")
	vfDistinct([]string{N1, N2})
	vfDistinct([]string{a1, a2})
	vfRoles([]string{a1, a2}, []string{o1, o2, N1, N2}, []string{p1, p2})
	k := vfChoose("likes.kind", 2)
	mkw := func(name string) *vfCW {
		w := base(name)
		for _, n := range []string{N1, N2} {
			e := &vfEnt{kind: "Note"}
			if k == 1 {
				e.likesK = "OrderedCollection"
			}
			w.put(n, e)
		}
		return w
	}
	vfC08Pair(mkw, &vfCReq{name: "r1", body: vfDoc("Like", "id", a1, "actor", p1, "object", o1)},
		&vfCReq{name: "r2", body: vfDoc("Announce", "id", a2, "actor", p2, "object", o2)})
}

// an Add and a Remove on owned collections that may be the same collection
func VfC08_AddAndRemove() {
	base := vfC08Base()
	a1, a2 := vfIRI("act"), vfIRI("act")
	x1, x2 := vfIRI("obj"), vfIRI("obj")
	p := vfIRI("peer")
	T1, T2 := vfIRI("ownedCol"), vfIRI("ownedCol")
	t1, t2 := vfIRI("target"), vfIRI("target")
	pre := vfIRI("member")
	vfDistinct([]string{T1, T2})
	vfDistinct([]string{a1, a2})
	vfRoles([]string{a1, a2}, []string{x1, x2, pre}, []string{p}, []string{T1, T2, t1, t2})
	vfAssume(vfOr(vfStrEq(t1, T1), vfStrEq(t1, T2)), "targets are owned collections")
	vfAssume(vfOr(vfStrEq(t2, T1), vfStrEq(t2, T2)), "targets are owned collections")
	kind := []string{"Collection", "OrderedCollection"}[vfChoose("target.kind", 2)]
	mkw := func(name string) *vfCW {
		w := base(name)
		w.put(T1, &vfEnt{kind: kind, items: []string{pre}})
		w.put(T2, &vfEnt{kind: kind, items: []string{pre}})
		return w
	}
	// the Remove names an entry that is there before (pre) or the one the Add adds (x1): order-dependent
	// outcomes are accepted by the either-order oracle
	vfC08Pair(mkw, &vfCReq{name: "r1", body: vfDoc("Add", "id", a1, "actor", p, "object", x1, "target", t1)},
		&vfCReq{name: "r2", body: vfDoc("Remove", "id", a2, "actor", p, "object", x2, "target", t2)})
}

func VfC08_Likes()     { vfC08Reactions("Like") }
func VfC08_Announces() { vfC08Reactions("Announce") }

// two Follows of this actor with automatic acceptance
func VfC08_Follows() {
	base := vfC08Base()
	a1, a2 := vfIRI("act"), vfIRI("act")
	p1, p2 := vfIRI("peer"), vfIRI("peer")
	vfDistinct([]string{a1, a2})
	vfRoles([]string{a1, a2}, []string{p1, p2})
	actor, mkw := vfC08Actor, base
	mk := func(id, peer string) map[string]interface{} {
		return vfDoc("Follow", "id", id, "actor", peer, "object", actor)
	}
	vfC08Pair(mkw, &vfCReq{name: "r1", body: mk(a1, p1)}, &vfCReq{name: "r2", body: mk(a2, p2)})
}

// two Accepts, by two peers, of two Follows this actor sent (stored): the actor's following collection
func VfC08_Accepts() {
	base := vfC08Base()
	a1, a2 := vfIRI("act"), vfIRI("act")
	f1, f2 := vfIRI("follow"), vfIRI("follow")
	p1, p2 := vfIRI("peer"), vfIRI("peer")
	vfDistinct([]string{a1, a2})
	vfDistinct([]string{f1, f2})
	vfRoles([]string{a1, a2}, []string{f1, f2}, []string{p1, p2})
	me := vfC08Actor
	mkw := func(name string) *vfCW {
		w := base(name)
		w.put(f1, &vfEnt{kind: "Follow", actor: me, object: p1})
		w.put(f2, &vfEnt{kind: "Follow", actor: me, object: p2})
		return w
	}
	mk := func(id, peer, follow string) map[string]interface{} {
		return vfDoc("Accept", "id", id, "actor", peer,
			"object", map[string]interface{}{"type": "Follow", "id": follow, "actor": me, "object": peer})
	}
	vfC08Pair(mkw, &vfCReq{name: "r1", body: mk(a1, p1, f1)}, &vfCReq{name: "r2", body: mk(a2, p2, f2)})
}

// two Adds, each to 1..2 targets; the targets are free to alias two owned collections in any order
func VfC08_Adds() {
	base := vfC08Base()
	a1, a2 := vfIRI("act"), vfIRI("act")
	x1, x2 := vfIRI("obj"), vfIRI("obj")
	p := vfIRI("peer")
	T1, T2 := vfIRI("ownedCol"), vfIRI("ownedCol")
	vfDistinct([]string{T1, T2})
	vfDistinct([]string{a1, a2})
	vfRoles([]string{a1, a2}, []string{x1, x2}, []string{p}, []string{T1, T2})
	kind := []string{"Collection", "OrderedCollection"}[vfChoose("target.kind", 2)]
	mkw := func(name string) *vfCW {
		w := base(name)
		w.put(T1, &vfEnt{kind: kind})
		w.put(T2, &vfEnt{kind: kind})
		return w
	}
	nt := 1 + vfChoose("ntargets", vfParam("ntargets", 2))
	targets := func() []interface{} {
		var l []interface{}
		for i := 0; i < nt; i++ {
			t := vfIRI("target")
			vfAssume(vfOr(vfStrEq(t, T1), vfStrEq(t, T2)), "targets are owned collections")
			l = append(l, t)
		}
		return l
	}
	t1, t2 := targets(), targets()
	if nt == 2 {
		vfDistinct([]string{t1[0].(string), t1[1].(string)})
		vfDistinct([]string{t2[0].(string), t2[1].(string)})
		vfCover("two-targets")
	}
	mk := func(id, obj string, tg []interface{}) map[string]interface{} {
		return vfDoc("Add", "id", id, "actor", p, "object", obj, "target", tg)
	}
	vfC08Pair(mkw, &vfCReq{name: "r1", body: mk(a1, x1, t1)}, &vfCReq{name: "r2", body: mk(a2, x2, t2)})
}

// two client POSTs of a Note to one outbox
func VfC08_OutboxPosts() {
	base := vfC08Base()
	to1, to2 := vfIRI("rcpt"), vfIRI("rcpt")
	vfRoles([]string{to1, to2})
	mk := func(to string) map[string]interface{} {
		if vfParam("outbox_rcpts", 0) == 0 {
			// without recipients: the persistence half of the outbox path only (delivery resolution
			// multiplies the scheduling points; it is part of the thorough tier)
			return vfDoc("Note", "content", "hello")
		}
		return vfDoc("Note", "content", "hello", "to", []interface{}{to})
	}
	vfC08Pair(base, &vfCReq{name: "r1", outbox: true, body: mk(to1)}, &vfCReq{name: "r2", outbox: true, body: mk(to2)})
}

// two client Likes: the actor's liked collection
func VfC08_OutboxLikes() {
	base := vfC08Base()
	o1, o2 := vfIRI("obj"), vfIRI("obj")
	vfRoles([]string{o1, o2})
	actor, mkw := vfC08Actor, base
	mk := func(obj string) map[string]interface{} {
		if vfParam("outbox_rcpts", 0) == 0 {
			return vfDoc("Like", "actor", actor, "object", obj)
		}
		return vfDoc("Like", "actor", actor, "object", obj, "to", []interface{}{vfIRI("rcpt")})
	}
	vfC08Pair(mkw, &vfCReq{name: "r1", outbox: true, body: mk(o1)}, &vfCReq{name: "r2", outbox: true, body: mk(o2)})
}

// sequential history: the same activity delivered k times in a row appears once
func VfC08_RepeatedDelivery() {
	base := vfC08Base()
	a, n, p := vfIRI("act"), vfIRI("note"), vfIRI("peer")
	vfRoles([]string{a}, []string{n}, []string{p})
	w := base("history")
	act := w.actorFor()
	body := vfDoc("Create", "id", a, "actor", p, "to", []interface{}{"https://www.w3.org/ns/activitystreams#Public"},
		"object", map[string]interface{}{"type": "Note", "id": n, "attributedTo": p})
	k := 1 + vfChoose("times", vfParam("times", 3))
	for i := 0; i < k; i++ {
		w.run(act, &vfCReq{name: "r" + string(rune('1'+i)), body: body})
	}
	vfAssert(len(w.errs) == 0, "repeated-delivery-failed")
	vfAssert(len(w.inbox) == 1 && vfCount(a, w.inbox) == 1, "activity-not-in-inbox-exactly-once")
	vfAssert(vfCount(a, w.cbs) == 1, "side-effects-not-attempted-exactly-once")
	vfAssert(vfCount(a, w.created) == 1, "activity-not-recorded-exactly-once")
	vfCover("end")
}
