//go:build verif

package pub

// C11 (handler part): hostile request bodies, stored values and remotely
// dereferenced documents cannot crash or hang the Actor methods.
// Every feasible Go run-time panic on any path is a counterexample.

// vfHostileJSON: a JSON value of a harness-chosen kind with symbolic leaves.
func vfHostileJSON(tag string) interface{} {
	switch vfChoose(tag+".kind", 11) {
	case 0:
		return nil
	case 1:
		return vfFloat(tag + ".num")
	case 2:
		return vfString(tag + ".str")
	case 3:
		return []interface{}{}
	case 4:
		return map[string]interface{}{}
	case 5:
		// an embedded value of some other type (the decoder harness covers every type name)
		types := []string{"Note", "Mention", "Tombstone", "OrderedCollection", "VfUnknownType"}
		return map[string]interface{}{"type": types[vfChoose(tag+".type", len(types))]}
	case 6:
		return map[string]interface{}{"type": "Note", "id": vfFloat(tag + ".idnum")}
	case 7:
		return []interface{}{vfIRI(tag + ".iri"), nil}
	case 8:
		// a Link-family value (identified by href, it has no id) whose href is not an absolute IRI
		hrefs := []interface{}{"/relative/ref", 7.0, "", nil}
		lt := []string{"Mention", "Link"}[vfChoose(tag+".linktype", 2)]
		return map[string]interface{}{"type": lt, "href": hrefs[vfChoose(tag+".href", len(hrefs))]}
	case 9:
		return map[string]interface{}{"type": "Mention", "href": vfIRI(tag + ".href")}
	}
	return ""
}

// inbox POST of typ whose member `member` is hostile; stored and remote documents may be hostile too
func vfC11Inbox(typ string, hostileWorld bool) {
	vfHangCheck(true)
	w := vfNewWorld()
	w.hostile = hostileWorld
	w.smallWorld = !hostileWorld
	w.defaultStore = true
	w.remote = w.vfRemoteDefault
	w.cbMode = 1
	w.onFollow = OnFollowBehavior(vfChoose("onfollow", 3))
	w.maxDeliver, w.maxForward = 1, 1
	w.inboxSeen = func(string) bool { return false }
	a := vfActivity(typ, 1, 1, 2, "Note")
	a.tree["to"] = vfIRI("act.to")
	members := []string{"", "id", "actor", "object", "target", "to", "inReplyTo", "tag"}
	if !hostileWorld {
		m := members[1+vfChoose("mutate", len(members)-1)]
		a.tree[m] = vfHostileJSON("h")
	}
	actor := w.actor(false, true)
	rw := vfNewWriter(w)
	req := vfRequest("POST", vfCT, "", w.inboxIRI, vfMarshal(a.tree))
	actor.PostInbox(vfCtx(), rw, req)
	vfCover("end")
}

func VfC11_Inbox_Create_Body() { vfC11Inbox("Create", false) }
func VfC11_Inbox_Create_World() { vfC11Inbox("Create", true) }
func VfC11_Inbox_Update_Body() { vfC11Inbox("Update", false) }
func VfC11_Inbox_Update_World() { vfC11Inbox("Update", true) }
func VfC11_Inbox_Delete_Body() { vfC11Inbox("Delete", false) }
func VfC11_Inbox_Delete_World() { vfC11Inbox("Delete", true) }
func VfC11_Inbox_Follow_Body() { vfC11Inbox("Follow", false) }
func VfC11_Inbox_Follow_World() { vfC11Inbox("Follow", true) }
func VfC11_Inbox_Accept_Body() { vfC11Inbox("Accept", false) }
func VfC11_Inbox_Accept_World() { vfC11Inbox("Accept", true) }
func VfC11_Inbox_Reject_Body() { vfC11Inbox("Reject", false) }
func VfC11_Inbox_Reject_World() { vfC11Inbox("Reject", true) }
func VfC11_Inbox_Add_Body() { vfC11Inbox("Add", false) }
func VfC11_Inbox_Add_World() { vfC11Inbox("Add", true) }
func VfC11_Inbox_Remove_Body() { vfC11Inbox("Remove", false) }
func VfC11_Inbox_Remove_World() { vfC11Inbox("Remove", true) }
func VfC11_Inbox_Like_Body() { vfC11Inbox("Like", false) }
func VfC11_Inbox_Like_World() { vfC11Inbox("Like", true) }
func VfC11_Inbox_Announce_Body() { vfC11Inbox("Announce", false) }
func VfC11_Inbox_Announce_World() { vfC11Inbox("Announce", true) }
func VfC11_Inbox_Undo_Body() { vfC11Inbox("Undo", false) }
func VfC11_Inbox_Undo_World() { vfC11Inbox("Undo", true) }
func VfC11_Inbox_Block_Body() { vfC11Inbox("Block", false) }
func VfC11_Inbox_Block_World() { vfC11Inbox("Block", true) }

// client POST / Send with a hostile member; the sender's own stored document may lack an inbox
func vfC11Outbox(typ string, hostileWorld bool) {
	vfHangCheck(true)
	w := vfNewWorld()
	w.hostile = hostileWorld
	w.smallWorld = !hostileWorld
	w.defaultStore = true
	w.remote = w.vfRemoteDefault
	w.cbMode = 1
	w.maxDeliver = 1
	var tree map[string]interface{}
	if typ == "Note" {
		tree = vfDoc("Note", "content", "x", "to", vfIRI("note.to"))
	} else {
		a := vfActivity(typ, 1, 1, 2, "Note")
		a.tree["to"] = vfIRI("act.to")
		tree = a.tree
	}
	members := []string{"", "id", "actor", "object", "target", "to", "bcc", "attributedTo"}
	if !hostileWorld {
		m := members[1+vfChoose("mutate", len(members)-1)]
		tree[m] = vfHostileJSON("h")
	}
	actor := w.actor(true, true)
	rw := vfNewWriter(w)
	req := vfRequest("POST", vfCT, "", w.outboxIRI, vfMarshal(tree))
	actor.PostOutbox(vfCtx(), rw, req)
	vfCover("end")
}

func VfC11_Outbox_Note_Body() { vfC11Outbox("Note", false) }
func VfC11_Outbox_Note_World() { vfC11Outbox("Note", true) }
func VfC11_Outbox_Create_Body() { vfC11Outbox("Create", false) }
func VfC11_Outbox_Create_World() { vfC11Outbox("Create", true) }
func VfC11_Outbox_Update_Body() { vfC11Outbox("Update", false) }
func VfC11_Outbox_Update_World() { vfC11Outbox("Update", true) }
func VfC11_Outbox_Delete_Body() { vfC11Outbox("Delete", false) }
func VfC11_Outbox_Delete_World() { vfC11Outbox("Delete", true) }
func VfC11_Outbox_Follow_Body() { vfC11Outbox("Follow", false) }
func VfC11_Outbox_Follow_World() { vfC11Outbox("Follow", true) }
func VfC11_Outbox_Add_Body() { vfC11Outbox("Add", false) }
func VfC11_Outbox_Add_World() { vfC11Outbox("Add", true) }
func VfC11_Outbox_Remove_Body() { vfC11Outbox("Remove", false) }
func VfC11_Outbox_Remove_World() { vfC11Outbox("Remove", true) }
func VfC11_Outbox_Like_Body() { vfC11Outbox("Like", false) }
func VfC11_Outbox_Like_World() { vfC11Outbox("Like", true) }
func VfC11_Outbox_Undo_Body() { vfC11Outbox("Undo", false) }
func VfC11_Outbox_Undo_World() { vfC11Outbox("Undo", true) }
func VfC11_Outbox_Block_Body() { vfC11Outbox("Block", false) }
func VfC11_Outbox_Block_World() { vfC11Outbox("Block", true) }
