//go:build verif

package pub

// C20: served ActivityStreams bodies are faithful, de-duplicated and integrity-tagged.

import (
	"github.com/go-fed/activity/streams"
	"github.com/go-fed/activity/streams/vocab"
)

const vfDateLayout = "Mon, 02 Jan 2006 15:04:05"

// headers every served body must carry, computed from the bytes actually written
func vfC20Headers(w *vfWorld, rw *vfWriter) {
	vfAssert(len(rw.bodies) == 1, "body-not-written-exactly-once")
	if len(rw.bodies) != 1 {
		return
	}
	h := rw.hdr
	vfAssert(h.Get("Content-Type") == "application/ld+json; profile=\"https://www.w3.org/ns/activitystreams\"", "content-type-is-not-the-activitystreams-type")
	vfAssert(h.Get("Date") == vfFormatTime(w.now.UTC(), vfDateLayout)+" GMT", "date-is-not-the-clock-instant-in-rfc7231-gmt-form")
	vfAssert(h.Get("Digest") == "SHA-256="+vfDigest(rw.bodies[0]), "digest-is-not-the-sha256-of-the-bytes-written")
	// the headers are in place before the status is written
	seenWH := false
	for _, e := range w.log {
		if e.kind == "w.WriteHeader" {
			seenWH = true
		}
		if e.kind == "w.Write" {
			vfAssert(seenWH, "body-written-before-status")
		}
	}
}

type vfItem struct {
	id       string
	embedded bool
}

// a page with n items, each an IRI or an embedded Note; ids unconstrained (duplicates by aliasing)
func vfC20Page(n int) (vocab.ActivityStreamsOrderedCollectionPage, []vfItem) {
	p := streams.NewActivityStreamsOrderedCollectionPage()
	var items []vfItem
	if n == 0 {
		return p, nil
	}
	oi := streams.NewActivityStreamsOrderedItemsProperty()
	for i := 0; i < n; i++ {
		u := vfURL("item")
		if vfChoose("item.form", 2) == 0 {
			oi.AppendIRI(u)
			items = append(items, vfItem{u.String(), false})
		} else {
			nt := streams.NewActivityStreamsNote()
			idp := streams.NewJSONLDIdProperty()
			idp.Set(u)
			nt.SetJSONLDId(idp)
			oi.AppendActivityStreamsNote(nt)
			items = append(items, vfItem{u.String(), true})
		}
	}
	p.SetActivityStreamsOrderedItems(oi)
	return p, items
}

func vfC20CheckItems(body []byte, want []vfItem) {
	tree, _ := vfTree(body).(map[string]interface{})
	vfAssert(tree != nil && tree["type"] == "OrderedCollectionPage", "served-value-is-not-the-page")
	if tree == nil {
		return
	}
	var got []interface{}
	switch x := tree["orderedItems"].(type) {
	case nil:
	case []interface{}:
		got = x
	default:
		got = []interface{}{x}
	}
	vfAssert(len(got) == len(want), "served-items-are-not-the-expected-number")
	if len(got) != len(want) {
		return
	}
	for i, g := range got {
		if want[i].embedded {
			m, _ := g.(map[string]interface{})
			vfAssert(m != nil && m["id"] == want[i].id && m["type"] == "Note", "embedded-item-changed-or-out-of-order")
		} else {
			vfAssert(g == want[i].id, "iri-item-changed-or-out-of-order")
		}
	}
}

func VfC20_GetInbox() {
	w := vfNewWorld()
	w.now = vfTime("now")
	n := vfChoose("nitems", 1+vfParam("items", 3))
	page, items := vfC20Page(n)
	w.getInboxVal = page
	actor := w.actor(false, true)
	rw := vfNewWriter(w)
	req := vfRequest("GET", "", vfCT, w.inboxIRI, nil)
	handled, err := actor.GetInbox(vfCtx(), rw, req)
	vfAssert(handled && err == nil, "get-inbox-failed")
	// reference: later duplicates of an id removed, order otherwise kept
	var want []vfItem
	for _, it := range items {
		dup := false
		for _, p := range want {
			if p.id == it.id {
				dup = true
			}
		}
		if !dup {
			want = append(want, it)
		}
	}
	vfAssert(len(rw.codes) == 1 && rw.codes[0] == 200, "get-inbox-status-not-200")
	vfC20Headers(w, rw)
	if len(rw.bodies) == 1 {
		vfC20CheckItems(rw.bodies[0], want)
	}
	vfCover("end")
}

func VfC20_GetOutbox() {
	w := vfNewWorld()
	w.now = vfTime("now")
	n := vfChoose("nitems", 1+vfParam("items", 3))
	page, items := vfC20Page(n)
	w.getOutboxVal = page
	actor := w.actor(true, true)
	rw := vfNewWriter(w)
	req := vfRequest("GET", "", vfCT, w.outboxIRI, nil)
	handled, err := actor.GetOutbox(vfCtx(), rw, req)
	vfAssert(handled && err == nil, "get-outbox-failed")
	vfAssert(len(rw.codes) == 1 && rw.codes[0] == 200, "get-outbox-status-not-200")
	vfC20Headers(w, rw)
	if len(rw.bodies) == 1 {
		vfC20CheckItems(rw.bodies[0], items) // the outbox is served as supplied
	}
	vfCover("end")
}

func VfC20_Handler() {
	w := vfNewWorld()
	w.now = vfTime("now")
	w.getNilOK = true
	types := []string{"Note", "Tombstone", "Person", "Create", "OrderedCollection", "Image", "Relationship", "Question", "Ticket", "Emoji"}
	kind := vfChoose("stored", len(types)+1)
	rw := vfNewWriter(w)
	req := vfRequest("GET", "", vfCT, w.inboxIRI, nil)
	h := NewActivityStreamsHandler(&vfDB{w: w}, &vfClock{w: w})
	if kind == len(types) {
		// nothing stored under the requested id
		handled, err := h(vfCtx(), rw, req)
		vfAssert(handled && err == ErrNotFound, "missing-value-is-not-ErrNotFound")
		vfAssert(len(rw.codes) == 0 && len(rw.bodies) == 0 && len(rw.hdr) == 0, "something-written-for-a-missing-value")
		vfCover("missing")
		vfCover("end")
		return
	}
	typ := types[kind]
	doc := vfDoc(typ, "id", w.inboxIRI.String(), "name", vfString("name"))
	want := map[string]interface{}{"type": typ, "id": w.inboxIRI.String(), "name": doc["name"]}
	vfAssume(vfNot(vfContains(doc["name"].(string), ":")), "the name is plain text, not an IRI")
	if typ != "Emoji" && vfChoose("hidden", 2) == 1 {
		doc["bcc"] = vfIRI("bcc")
		doc["bto"] = []interface{}{vfIRI("bto"), vfIRI("bto")}
	}
	if vfChoose("summary", 2) == 1 {
		doc["summary"] = "a summary"
		want["summary"] = "a summary"
	}
	w.store = append(w.store, vfStored{id: w.inboxIRI.String(), val: vfToType(doc)})
	handled, err := h(vfCtx(), rw, req)
	vfAssert(handled && err == nil, "handler-failed")
	wantCode := 200
	if typ == "Tombstone" {
		wantCode = 410
	}
	vfAssert(len(rw.codes) == 1 && rw.codes[0] == wantCode, "handler-status-wrong (410 iff Tombstone)")
	vfC20Headers(w, rw)
	if len(rw.bodies) == 1 {
		got, _ := vfTree(rw.bodies[0]).(map[string]interface{})
		if got != nil {
			delete(got, "@context")
		}
		vfAssert(vfJSONEq(got, want), "served-body-is-not-the-stored-value-without-bto-bcc")
	}
	vfCover("end")
}

// two responses served one after the other by one handler in one process: each response's headers
// must be computed from that response alone (state kept between requests must not leak in)
func VfC20_TwoResponses() {
	w := vfNewWorld()
	w.now = vfTime("now")
	w.authed = true
	h := NewActivityStreamsHandler(&vfDB{w: w}, &vfClock{w: w})
	for i := 0; i < 2; i++ {
		u := vfURL("served")
		n := streams.NewActivityStreamsNote()
		idp := streams.NewJSONLDIdProperty()
		idp.Set(u)
		n.SetJSONLDId(idp)
		cp := streams.NewActivityStreamsContentProperty()
		cp.AppendXMLSchemaString(vfString("content"))
		n.SetActivityStreamsContent(cp)
		w.store = []vfStored{{id: u.String(), val: n}}
		rw := vfNewWriter(w)
		handled, err := h(vfCtx(), rw, vfRequest("GET", "", vfCT, u, nil))
		vfAssert(handled && err == nil, "stored-value-not-served")
		if handled && err == nil {
			vfC20Headers(w, rw)
		}
	}
	vfCover("end")
}
