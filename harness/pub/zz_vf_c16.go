//go:build verif

package pub

// C16: client Update/Delete/Add/Remove/Like/Block have exactly their documented effect.

import (
	"net/url"
)

func vfC16Outbox() *vfOutbox {
	o := &vfOutbox{w: vfOutboxWorld(), social: true}
	o.fed = vfChoose("federating", 2) == 1
	o.isAct = true
	return o
}

func (o *vfOutbox) writesExceptActivity() []vfEvent {
	var r []vfEvent
	actID := ""
	if len(o.w.newIDs) > 0 {
		actID = o.w.newIDs[0].String()
	}
	for _, e := range o.w.log {
		switch e.kind {
		case "db.Create":
			if e.id == actID {
				continue
			}
			r = append(r, e)
		case "db.Update", "db.Delete":
			r = append(r, e)
		}
	}
	return r
}

// --- Update: replace exactly the supplied top-level members, remove the nulled ones
var vfC16Members = []string{"name", "content", "summary", "vfUnknownMember"}

func VfC16_Update() {
	o := vfC16Outbox()
	w := o.w
	objID := vfIRI("obj.id")
	o.fresh = append(o.fresh, objID)
	stored := map[string]interface{}{"@context": vfAS, "type": "Note", "id": objID}
	supplied := map[string]interface{}{"type": "Note", "id": objID}
	want := map[string]interface{}{}
	for _, m := range vfC16Members {
		// stored: absent or present; supplied: absent, new value, or null
		sv := ""
		if vfChoose("stored."+m, 2) == 1 {
			sv = "stored-" + m
			stored[m] = sv
		}
		switch vfChoose("supplied."+m, 3) {
		case 0:
			if sv != "" {
				want[m] = sv
			}
		case 1:
			supplied[m] = "new-" + m
			want[m] = "new-" + m
		case 2:
			supplied[m] = nil // JSON null: the member is to be removed
		}
	}
	w.store = append(w.store, vfStored{id: objID, val: vfToType(stored)})
	a := vfActivity("Update", 1, 0, 0, "")
	a.tree["object"] = supplied
	o.tree = a.tree
	o.typ = "Update"
	o.fresh = append(o.fresh, a.actors...)
	o.distinctIDs()
	o.run()
	if o.err != nil || len(o.rw.codes) != 1 || o.rw.codes[0] != 201 {
		vfCover("refused")
		vfAssert(false, "update-of-a-stored-object-refused")
		vfCover("end")
		return
	}
	vfCover("applied")
	ws := o.writesExceptActivity()
	vfAssert(len(ws) == 1 && ws[0].kind == "db.Update" && ws[0].id == objID, "update-did-not-write-exactly-the-named-object")
	if len(ws) == 1 {
		got := ws[0].snap
		for _, m := range vfC16Members {
			wv, wok := want[m]
			gv, gok := got[m]
			if wok {
				vfAssert(gok && gv == wv, "member-"+m+"-has-the-wrong-value-after-update")
			} else {
				vfAssert(!gok, "member-"+m+"-should-be-absent-after-update")
			}
		}
		vfAssert(got["id"] == objID && got["type"] == "Note", "update-changed-id-or-type")
	}
	vfCover("end")
}

// --- Delete: Tombstone with same id, former type, original published/updated, now as deleted
func VfC16_Delete() {
	o := vfC16Outbox()
	w := o.w
	w.now = vfTime("now")
	objID := vfIRI("obj.id")
	o.fresh = append(o.fresh, objID)
	types := []string{"Note", "Article", "Image", "Person"}
	typ := types[vfChoose("stored.type", len(types))]
	stored := map[string]interface{}{"@context": vfAS, "type": typ, "id": objID, "content": "text"}
	hasPub := vfChoose("published", 2) == 1
	hasUpd := vfChoose("updated", 2) == 1
	if hasPub {
		stored["published"] = "2019-01-02T03:04:05Z"
	}
	if hasUpd {
		stored["updated"] = "2020-06-07T08:09:10Z"
	}
	w.store = append(w.store, vfStored{id: objID, val: vfToType(stored)})
	a := vfActivity("Delete", 1, 0, 0, "")
	if vfChoose("object.form", 2) == 0 {
		a.tree["object"] = objID
	} else {
		a.tree["object"] = map[string]interface{}{"type": typ, "id": objID}
	}
	o.tree = a.tree
	o.typ = "Delete"
	o.fresh = append(o.fresh, a.actors...)
	o.distinctIDs()
	o.run()
	vfAssert(o.err == nil && len(o.rw.codes) == 1 && o.rw.codes[0] == 201, "delete-of-a-stored-object-refused")
	ws := o.writesExceptActivity()
	vfAssert(len(ws) == 1 && ws[0].kind == "db.Update", "delete-did-not-replace-exactly-the-named-object")
	if len(ws) == 1 {
		t := ws[0].snap
		vfAssert(t["type"] == "Tombstone", "replacement-is-not-a-tombstone")
		vfAssert(t["id"] == objID, "tombstone-has-another-id")
		vfAssert(t["formerType"] == typ, "tombstone-former-type-wrong")
		if hasPub {
			vfAssert(t["published"] == "2019-01-02T03:04:05Z", "tombstone-lost-published")
		} else {
			vfAssert(t["published"] == nil, "tombstone-invented-published")
		}
		if hasUpd {
			vfAssert(t["updated"] == "2020-06-07T08:09:10Z", "tombstone-lost-updated")
		} else {
			vfAssert(t["updated"] == nil, "tombstone-invented-updated")
		}
		d, _ := t["deleted"].(string)
		vfAssert(d == vfFormatTime(w.now, "2006-01-02T15:04:05Z07:00"), "tombstone-deleted-is-not-the-current-time")
		_, hasContent := t["content"]
		vfAssert(!hasContent, "tombstone-kept-content")
	}
	vfCover("end")
}

// --- Add / Remove at the outbox: exactly the owned targets change
func vfC16AddRemove(typ string) {
	o := vfC16Outbox()
	w := o.w
	nobj := 1 + vfChoose("nobj", vfParam("nobj", 2))
	a := vfActivity(typ, 1, nobj, 0, "")
	np := vfChoose("pre", 3)
	w.colItems = nil
	var pre []string
	for i := 0; i < np; i++ {
		u := vfURL("target.pre")
		w.colItems = append(w.colItems, u)
		pre = append(pre, u.String())
	}
	if vfChoose("ntargets", 2) == 1 {
		t2 := vfIRI("act.target")
		a.tree["target"] = []interface{}{a.targets[0], t2}
		a.targets = append(a.targets, t2)
	}
	for _, t := range a.targets {
		k := vfUFInt("storedKind", t, 0, 5)
		vfAssume(vfOr(vfNot(vfUFBool("owns", t)), vfOr(k == 1, k == 2)), "owned targets are collections")
	}
	o.tree = a.tree
	o.typ = typ
	// ids of the request are distinct from the principals; objects may alias pre-state entries (Remove!)
	o.fresh = append(o.fresh, a.actors...)
	o.fresh = append(o.fresh, a.targets...)
	o.distinctIDs()
	o.run()
	vfAssert(o.err == nil && len(o.rw.codes) == 1 && o.rw.codes[0] == 201, typ+"-refused")
	ws := o.writesExceptActivity()
	k := 0
	for _, t := range a.targets {
		if !vfUFBool("owns", t) {
			continue
		}
		if k >= len(ws) {
			vfAssert(false, "owned-target-not-updated")
			break
		}
		e := ws[k]
		k++
		vfAssert(e.kind == "db.Update" && e.id == t, "update-is-not-of-the-owned-target")
		got := vfItemIDs(e.val)
		if typ == "Add" {
			want := append(append([]string{}, pre...), a.objects...)
			vfAssert(vfSeqEq(got, want), "add-did-not-append-exactly-the-object-ids")
		} else {
			j := 0
			okAll := true
			for _, p := range pre {
				if vfStrIn(p, a.objects) {
					continue
				}
				if j >= len(got) {
					okAll = false
					break
				}
				okAll = vfAnd(okAll, vfStrEq(got[j], p))
				j++
			}
			vfAssert(okAll && j == len(got), "remove-did-not-remove-exactly-the-object-ids")
		}
	}
	vfAssert(k == len(ws), "write-to-a-target-this-server-does-not-own")
	vfCover("end")
}

func VfC16_Add()    { vfC16AddRemove("Add") }
func VfC16_Remove() { vfC16AddRemove("Remove") }

// --- Like: object ids at the front of the actor's liked collection
func VfC16_Like() {
	o := vfC16Outbox()
	w := o.w
	nobj := 1 + vfChoose("nobj", vfParam("nobj", 2))
	a := vfActivity("Like", 1, nobj, 2, "Note")
	np := vfChoose("pre", 3)
	w.colItems = nil
	var pre []string
	for i := 0; i < np; i++ {
		u := vfURL("liked.pre")
		w.colItems = append(w.colItems, u)
		pre = append(pre, u.String())
	}
	o.tree = a.tree
	o.typ = "Like"
	o.fresh = append(o.fresh, a.actors...)
	o.fresh = append(o.fresh, a.objects...)
	o.distinctIDs()
	o.run()
	vfAssert(o.err == nil && len(o.rw.codes) == 1 && o.rw.codes[0] == 201, "like-refused")
	ws := o.writesExceptActivity()
	vfAssert(len(ws) == 1 && ws[0].kind == "db.Update", "like-did-not-update-liked-once")
	if len(ws) == 1 {
		got := vfItemIDs(ws[0].val)
		var want []string
		for i := len(a.objects) - 1; i >= 0; i-- {
			want = append(want, a.objects[i])
		}
		want = append(want, pre...)
		vfAssert(vfSeqEq(got, want), "liked-is-not-object-ids-followed-by-previous-entries")
	}
	vfAssert(w.count("db.Liked") == 1, "liked-collection-not-read-once")
	vfCover("end")
}

// --- Block: stored, listed in the outbox, never delivered
func VfC16_Block() {
	o := vfC16Outbox()
	w := o.w
	nobj := 1 + vfChoose("nobj", vfParam("nobj", 2))
	a := vfActivity("Block", 1, nobj, 2, "Person")
	o.tree = a.tree
	o.tree["to"] = vfIRI("act.to")
	o.typ = "Block"
	o.fresh = append(o.fresh, a.actors...)
	o.fresh = append(o.fresh, a.objects...)
	o.distinctIDs()
	o.run()
	vfAssert(o.err == nil && len(o.rw.codes) == 1 && o.rw.codes[0] == 201, "block-refused")
	o.c05Common()
	vfAssert(w.count("tp.BatchDeliver")+w.count("tp.Deliver")+w.count("tp.Dereference") == 0, "block-was-delivered")
	vfAssert(w.count("db.SetOutbox") == 1, "block-not-listed-in-outbox")
	vfCover("end")
}

// --- a required object/target is missing or empty: 400 and nothing changes
func vfC16Missing(typ string) {
	o := vfC16Outbox()
	w := o.w
	a := vfActivity(typ, 1, 1, 0, "")
	switch vfChoose("missing", 4) {
	case 0:
		delete(a.tree, "object")
	case 1:
		a.tree["object"] = []interface{}{}
	case 2:
		if typ != "Add" && typ != "Remove" {
			vfAssume(false, "no target on this type")
		}
		delete(a.tree, "target")
	case 3:
		if typ != "Add" && typ != "Remove" {
			vfAssume(false, "no target on this type")
		}
		a.tree["target"] = []interface{}{}
	}
	o.tree = a.tree
	o.typ = typ
	o.fresh = append(o.fresh, a.actors...)
	o.distinctIDs()
	o.run()
	vfAssert(o.handled && o.err == nil && len(o.rw.codes) == 1 && o.rw.codes[0] == 400, "missing-object-or-target-not-answered-400")
	n := 0
	for _, e := range w.log {
		switch e.kind {
		case "db.Create", "db.Update", "db.Delete", "db.SetOutbox", "tp.BatchDeliver":
			n++
		}
	}
	vfAssert(n == 0, "rejected-activity-changed-something")
	vfCover("end")
}

func VfC16_Missing_Update() { vfC16Missing("Update") }
func VfC16_Missing_Delete() { vfC16Missing("Delete") }
func VfC16_Missing_Add()    { vfC16Missing("Add") }
func VfC16_Missing_Remove() { vfC16Missing("Remove") }
func VfC16_Missing_Like()   { vfC16Missing("Like") }
func VfC16_Missing_Block()  { vfC16Missing("Block") }

var _ = url.Parse
