//go:build verif

package pub

// C17: inbox forwarding happens iff its three conditions hold, once, unchanged.

import (
	"net/url"

	"github.com/go-fed/activity/streams"
	"github.com/go-fed/activity/streams/vocab"
)

type vfFwd struct {
	w      *vfWorld
	max    int
	derefs int
}

func vfOwns(id string) bool { return vfUFBool("owns", id) }

// the remote web for reply chains: kind(iri): 0 Note with a parent (inReplyTo = parent(iri)),
// 1 Note without parent, 2 unreachable, 3 unknown type
func (f *vfFwd) remote(iri string) (interface{}, int) {
	switch vfUFInt("replyKind", iri, 0, 3) {
	case 0:
		return vfDoc("Note", "id", iri, "inReplyTo", vfUFIRI("parent", iri)), 0
	case 1:
		return vfDoc("Note", "id", iri), 0
	case 2:
		return nil, 1
	}
	return vfDoc("VfUnknownType", "id", iri), 0
}

// reference reachability: is some value at nesting level < max owned?
// level: ids of the values at the current level given as IRIs, and embedded values (id + their own next-level ids)
type vfVal struct {
	id       string
	embedded bool
	next     []vfVal // for embedded values: their inReplyTo/tag/object/target values
}

func (f *vfFwd) reach(vals []vfVal, depth int) bool {
	if f.max > 0 && depth >= f.max {
		return false
	}
	for _, v := range vals {
		if vfOwns(v.id) {
			return true
		}
	}
	for _, v := range vals {
		var next []vfVal
		if v.embedded {
			next = v.next
		} else {
			switch vfUFInt("replyKind", v.id, 0, 3) {
			case 0:
				next = []vfVal{{id: vfUFIRI("parent", v.id)}}
			case 1:
				next = nil
			default:
				continue // unreachable / unknown type: skipped
			}
		}
		if f.reach(next, depth+1) {
			return true
		}
	}
	return false
}

func vfJSONEq(a, b interface{}) bool {
	switch x := a.(type) {
	case map[string]interface{}:
		y, ok := b.(map[string]interface{})
		if !ok || len(x) != len(y) {
			return false
		}
		r := true
		for k, v := range x {
			w, ok := y[k]
			if !ok {
				return false
			}
			r = vfAnd(r, vfJSONEq(v, w))
		}
		return r
	case []interface{}:
		y, ok := b.([]interface{})
		if !ok || len(x) != len(y) {
			return false
		}
		r := true
		for i := range x {
			r = vfAnd(r, vfJSONEq(x[i], y[i]))
		}
		return r
	case string:
		y, ok := b.(string)
		return ok && vfStrEq(x, y)
	case nil:
		return b == nil
	}
	return a == b
}

// slice 0 "conditions": one addressed entry, every chain form and depth limit, filter passes all
// slice 1 "collections": 1..n addressed entries of any stored kind, all filter modes, the chain is one owned IRI
func VfC17_Conditions()  { vfC17(0) }
func VfC17_Collections() { vfC17(1) }

func vfC17(slice int) {
	w := vfNewWorld()
	f := &vfFwd{w: w}
	f.max = 1
	if slice == 0 {
		f.max = 1 + vfChoose("maxdepth", vfParam("depth", 2))
	}
	w.maxForward = f.max
	w.remote = f.remote
	if slice == 1 {
		w.filterMode = vfChoose("filter", 3)
	}
	nitems := vfParam("items", 2)
	// the received activity
	a := vfActivity("Create", 1, 0, 0, "")
	ncol := 1
	if slice == 1 {
		ncol = 1 + vfChoose("naddr", vfParam("naddr", 2))
	}
	addrProps := []string{"to", "cc", "audience"}
	var addressed []string
	rot := vfChoose("addr-prop", 3)
	for i := 0; i < ncol; i++ {
		id := vfIRI("addr")
		p := addrProps[(rot+i)%3]
		a.tree[p] = id
		addressed = append(addressed, id)
	}
	if slice == 1 && vfChoose("has-hidden", 2) == 1 {
		// a received activity may still carry bto/bcc: forwarding must not change it
		a.tree["bcc"] = vfIRI("bcc")
		if obj, ok := a.tree["object"].(map[string]interface{}); ok {
			obj["bto"] = vfIRI("obj.bto")
		}
	}
	// order in which InboxForwarding reads them: to, cc, audience
	var ordered []string
	for _, p := range addrProps {
		if s, ok := a.tree[p].(string); ok {
			ordered = append(ordered, s)
		}
	}
	// the value chain
	var vals []vfVal
	form := 0
	if slice == 0 {
		form = vfChoose("object-form", 4)
	}
	switch form {
	case 0:
		id := vfIRI("obj")
		a.tree["object"] = id
		vals = append(vals, vfVal{id: id})
	case 1:
		id := vfIRI("obj")
		parent := vfIRI("obj.inReplyTo")
		a.tree["object"] = map[string]interface{}{"type": "Note", "id": id, "inReplyTo": parent}
		vals = append(vals, vfVal{id: id, embedded: true, next: []vfVal{{id: parent}}})
	case 2:
		id := vfIRI("obj")
		a.tree["object"] = map[string]interface{}{"type": "Note", "id": id}
		vals = append(vals, vfVal{id: id, embedded: true})
	case 3:
		// an embedded intransitive activity (it has a target but no object property)
		id := vfIRI("obj")
		tg := vfIRI("obj.target")
		it := []string{"Arrive", "Question"}[vfChoose("intransitive", 2)]
		a.tree["object"] = map[string]interface{}{"type": it, "id": id, "target": tg}
		vals = append(vals, vfVal{id: id, embedded: true, next: []vfVal{{id: tg}}})
	}
	if slice == 0 {
		switch vfChoose("has-tag", 3) {
		case 1:
			t := vfIRI("tag")
			a.tree["tag"] = t
			// getInboxForwardingValues order: inReplyTo, tag, object, target
			vals = append([]vfVal{{id: t}}, vals...)
		case 2:
			// an embedded Link-family value: identified by its href, it has no id
			t := vfIRI("tag")
			a.tree["tag"] = map[string]interface{}{"type": "Mention", "href": t}
			vals = append([]vfVal{{id: t, embedded: true}}, vals...)
		}
	}
	// stored collections: members are a function of the collection id
	members := func(col string) []string {
		n := vfUFInt("nmembers", col, 0, nitems)
		var r []string
		for j := 0; j < n; j++ {
			r = append(r, vfUFIRI("member"+string(rune('0'+j)), col))
		}
		return r
	}
	w.defaultStore = true
	w.membersOf = func(col string) []*url.URL {
		var r []*url.URL
		for _, m := range members(col) {
			u, _ := url.Parse(m)
			r = append(r, u)
		}
		return r
	}
	// the ids written in the request are pairwise distinct (aliasing between addressed
	// collections and values is C09's subject); fetched parents and members stay unconstrained
	all := append([]string{a.id, w.inboxIRI.String()}, addressed...)
	for _, v := range vals {
		all = append(all, v.id)
		for _, n := range v.next {
			all = append(all, n.id)
		}
	}
	vfDistinct(all)
	if slice == 1 {
		vfAssume(vfOwns(vals[0].id), "collections slice: the object is owned (condition 3 holds)")
	}
	sa := &sideEffectActor{common: &vfApp{w: w}, s2s: &vfApp{w: w}, db: &vfDB{w: w}, clock: &vfClock{w: w}}
	act := vfToType(a.tree).(Activity)
	err := sa.InboxForwarding(vfCtx(), w.inboxIRI, act)

	// ---- reference
	seen := vfUFBool("exists", a.id)
	var ownedCols []string
	for _, id := range ordered {
		k := vfUFInt("storedKind", id, 0, 5)
		if vfOwns(id) && (k == 1 || k == 2) {
			ownedCols = append(ownedCols, id)
		}
	}
	creates := 0
	for _, e := range w.events("db.Create") {
		if e.id == a.id {
			creates++
		}
	}
	sent := w.events("tp.BatchDeliver")
	if seen {
		vfCover("seen-before")
		vfAssert(creates == 0, "activity-recorded-again-although-seen")
		vfAssert(len(sent) == 0, "forwarded-although-seen-before")
		vfAssert(w.count("tp.Dereference") == 0 && w.count("s2s.FilterForwarding") == 0, "work-done-although-seen-before")
		vfCover("end")
		return
	}
	vfAssert(creates == 1, "activity-not-recorded-exactly-once")
	shouldForward := len(ownedCols) > 0 && f.reach(vals, 0)
	if err != nil {
		// only a stored value that is missing may legitimately fail the forwarding
		vfCover("error")
		vfCover("end")
		return
	}
	if !shouldForward {
		vfCover("not-forwarded")
		vfAssert(len(sent) == 0, "forwarded-although-conditions-do-not-hold")
		vfCover("end")
		return
	}
	vfCover("forwarded")
	vfAssert(len(sent) == 1, "not-forwarded-exactly-once-although-conditions-hold")
	fl := w.events("s2s.FilterForwarding")
	vfAssert(len(fl) == 1 && vfSeqEq(fl[0].ids, ownedCols), "filter-not-asked-once-about-exactly-the-owned-collections")
	if len(sent) == 1 {
		var chosen []string
		switch w.filterMode {
		case 0:
			chosen = ownedCols
		case 2:
			chosen = ownedCols[:1]
		}
		var want []string
		for _, c := range chosen {
			want = append(want, members(c)...)
		}
		vfAssert(vfSeqEq(sent[0].ids, want), "recipients-are-not-the-members-of-the-filtered-collections")
		got, _ := vfTree(sent[0].bytes).(map[string]interface{})
		vfAssert(vfJSONEq(got, a.tree), "forwarded-payload-differs-from-the-received-activity")
	}
	vfCover("end")
}

var _ vocab.Type
var _ = streams.NewActivityStreamsNote
