//go:build verif

package pub

// C09: every lock taken is released exactly once; none is retaken or leaked;
// every Database read/write other than id generation happens under a lock.

import "net/url"

func vfC09Inbox(typ string) {
	w := vfNewWorld()
	w.checkLocks = true
	w.faults = vfParam("faults", 1) > 0
	w.defaultStore = true
	w.remote = w.vfRemoteDefault
	w.onFollow = OnFollowBehavior(vfChoose("onfollow", 3))
	w.cbMode = 1
	w.maxDeliver = 1
	w.maxForward = 1
	nobj := vfParam("nobj", 1)
	a := vfActivity(typ, 1, nobj, 2, "Note")
	a.tree["to"] = vfIRI("act.to")
	if typ == "Create" {
		// two addressees (inbox forwarding keeps owned collections locked while it goes on)
		a.tree["to"] = []interface{}{vfIRI("act.to"), vfIRI("act.to")}
	}
	vfC09Targets(a, typ)
	actor := w.actor(false, true)
	rw := vfNewWriter(w)
	req := vfRequest("POST", vfCT, "", w.inboxIRI, vfMarshal(a.tree))
	actor.PostInbox(vfCtx(), rw, req)
	vfAssert(len(w.held) == 0, "lock-leaked-at-return")
	vfCover("end")
}

// Add/Remove: 1..ntargets targets, each an IRI or an embedded Collection, ids free to alias
// (the same collection named twice)
func vfC09Targets(a *vfAct, typ string) {
	if typ != "Add" && typ != "Remove" {
		return
	}
	nt := 1 + vfChoose("ntargets", vfParam("ntargets", 2))
	var l []interface{}
	a.targets = nil
	for i := 0; i < nt; i++ {
		t := vfIRI("act.target")
		a.targets = append(a.targets, t)
		if vfChoose("target.form", 2) == 0 {
			l = append(l, t)
		} else {
			l = append(l, map[string]interface{}{"type": "Collection", "id": t})
		}
	}
	a.tree["target"] = vfScalarOrList(l)
	if nt >= 2 {
		vfCover("two-targets")
	}
}

// client POSTs through the whole outbox stack (Social callbacks, persistence, delivery)
func vfC09Outbox(typ string) {
	w := vfOutboxWorld()
	w.checkLocks = true
	w.faults = vfParam("faults", 1) > 0
	w.remote = w.vfRemoteDefault
	w.maxDeliver = 1
	w.now = vfTime("now")
	fed := vfChoose("federating", 2) == 1
	var tree map[string]interface{}
	if typ == "Note" {
		tree = vfDoc("Note", "content", "hello", "to", vfIRI("note.to"))
	} else {
		nobj := vfParam("nobj", 1)
		a := vfActivity(typ, 0, nobj, 2, "Note")
		a.tree["actor"] = w.actorIRI.String()
		a.tree["to"] = vfIRI("act.to")
		vfC09Targets(a, typ)
		tree = a.tree
	}
	actor := w.actor(true, fed)
	rw := vfNewWriter(w)
	req := vfRequest("POST", vfCT, "", w.outboxIRI, vfMarshal(tree))
	actor.PostOutbox(vfCtx(), rw, req)
	vfAssert(len(w.held) == 0, "lock-leaked-at-return")
	vfCover("end")
}

func VfC09_Outbox_Note()   { vfC09Outbox("Note") }
func VfC09_Outbox_Create() { vfC09Outbox("Create") }
func VfC09_Outbox_Update() { vfC09Outbox("Update") }
func VfC09_Outbox_Delete() { vfC09Outbox("Delete") }
func VfC09_Outbox_Follow() { vfC09Outbox("Follow") }
func VfC09_Outbox_Add()    { vfC09Outbox("Add") }
func VfC09_Outbox_Remove() { vfC09Outbox("Remove") }
func VfC09_Outbox_Like()   { vfC09Outbox("Like") }
func VfC09_Outbox_Undo()   { vfC09Outbox("Undo") }
func VfC09_Outbox_Block()  { vfC09Outbox("Block") }

// the three GET endpoints
func vfC09Get(ep int) {
	w := vfNewWorld()
	w.checkLocks = true
	w.faults = vfParam("faults", 1) > 0
	w.defaultStore = true
	w.now = vfTime("now")
	rw := vfNewWriter(w)
	u := w.inboxIRI
	if ep == vfEPGetOutbox {
		u = w.outboxIRI
	}
	req := vfRequest("GET", "", vfCT, u, nil)
	switch ep {
	case vfEPGetInbox:
		w.getInboxVal = vfPage([]*url.URL{vfURL("page.item"), vfURL("page.item")})
		w.actor(false, true).GetInbox(vfCtx(), rw, req)
	case vfEPGetOutbox:
		w.getOutboxVal = vfPage([]*url.URL{vfURL("page.item")})
		w.actor(true, true).GetOutbox(vfCtx(), rw, req)
	default:
		h := NewActivityStreamsHandler(&vfDB{w: w}, &vfClock{w: w})
		h(vfCtx(), rw, vfRequest("GET", "", vfCT, vfURL("served"), nil))
	}
	vfAssert(len(w.held) == 0, "lock-leaked-at-return")
	vfCover("end")
}

func VfC09_Get_Inbox()   { vfC09Get(vfEPGetInbox) }
func VfC09_Get_Outbox()  { vfC09Get(vfEPGetOutbox) }
func VfC09_Get_Handler() { vfC09Get(vfEPHandler) }

func VfC09_Inbox_Create()   { vfC09Inbox("Create") }
func VfC09_Inbox_Update()   { vfC09Inbox("Update") }
func VfC09_Inbox_Delete()   { vfC09Inbox("Delete") }
func VfC09_Inbox_Follow()   { vfC09Inbox("Follow") }
func VfC09_Inbox_Accept()   { vfC09Inbox("Accept") }
func VfC09_Inbox_Reject()   { vfC09Inbox("Reject") }
func VfC09_Inbox_Add()      { vfC09Inbox("Add") }
func VfC09_Inbox_Remove()   { vfC09Inbox("Remove") }
func VfC09_Inbox_Like()     { vfC09Inbox("Like") }
func VfC09_Inbox_Announce() { vfC09Inbox("Announce") }
func VfC09_Inbox_Undo()     { vfC09Inbox("Undo") }
func VfC09_Inbox_Block()    { vfC09Inbox("Block") }
func VfC09_Inbox_Listen()   { vfC09Inbox("Listen") }
