//go:build verif

package pub

// C09: every lock taken is released exactly once; none is retaken or leaked;
// every Database read/write other than id generation happens under a lock.

func vfC09Inbox(typ string) {
	w := vfNewWorld()
	w.checkLocks = true
	w.faults = vfParam("faults", 1) > 0
	w.defaultStore = true
	w.remote = w.vfRemoteDefault
	w.onFollow = OnFollowBehavior(vfChoose("onfollow", 3))
	w.cbMode = 1
	w.maxDeliver = 1
	w.maxForward = 1
	nobj := vfParam("nobj", 1)
	a := vfActivity(typ, 1, nobj, 2, "Note")
	a.tree["to"] = vfIRI("act.to")
	actor := w.actor(false, true)
	rw := vfNewWriter(w)
	req := vfRequest("POST", vfCT, "", w.inboxIRI, vfMarshal(a.tree))
	actor.PostInbox(vfCtx(), rw, req)
	vfAssert(len(w.held) == 0, "lock-leaked-at-return")
	vfCover("end")
}

func VfC09_Inbox_Create()   { vfC09Inbox("Create") }
func VfC09_Inbox_Update()   { vfC09Inbox("Update") }
func VfC09_Inbox_Delete()   { vfC09Inbox("Delete") }
func VfC09_Inbox_Follow()   { vfC09Inbox("Follow") }
func VfC09_Inbox_Accept()   { vfC09Inbox("Accept") }
func VfC09_Inbox_Reject()   { vfC09Inbox("Reject") }
func VfC09_Inbox_Add()      { vfC09Inbox("Add") }
func VfC09_Inbox_Remove()   { vfC09Inbox("Remove") }
func VfC09_Inbox_Like()     { vfC09Inbox("Like") }
func VfC09_Inbox_Announce() { vfC09Inbox("Announce") }
func VfC09_Inbox_Undo()     { vfC09Inbox("Undo") }
func VfC09_Inbox_Block()    { vfC09Inbox("Block") }
func VfC09_Inbox_Listen()   { vfC09Inbox("Listen") }
