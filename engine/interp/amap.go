package interp

// Association-list maps: insertion-ordered, keys compared with symEq so that
// symbolic keys (strings) become solver-decided aliasing decisions.

import (
	"go/types"
)

type amap struct {
	keyType types.Type
	keys    []value
	vals    []value
	dead    []bool
	live    int
	fast    map[value]int // concrete basic keys -> index
	nsym    int           // number of live symbolic keys
}

func newAmap(t *types.Map) *amap {
	return &amap{keyType: t.Key(), fast: map[value]int{}}
}

func isBasicKey(k value) bool {
	switch k.(type) {
	case bool, int, int8, int16, int32, int64, uint, uint8, uint16, uint32, uint64, uintptr, float32, float64, string, *value:
		return true
	}
	return false
}

func (m *amap) len() int {
	if m == nil {
		return 0
	}
	return m.live
}

// find returns the index of the entry whose key equals k, or -1.
func (m *amap) find(fr *frame, k value) int {
	if m == nil {
		return -1
	}
	if isBasicKey(k) {
		if ix, ok := m.fast[k]; ok {
			return ix
		}
		if m.nsym == 0 {
			// only composite keys could still match
			for i, kk := range m.keys {
				if m.dead[i] || isBasicKey(kk) {
					continue
				}
				if r, _ := symEq(m.keyType, kk, k).(bool); r {
					return i
				}
			}
			return -1
		}
	}
	for i, kk := range m.keys {
		if m.dead[i] {
			continue
		}
		switch r := symEq(m.keyType, kk, k).(type) {
		case bool:
			if r {
				return i
			}
		case *sym:
			if fr.i.pc.decide(r.e, fr) {
				return i
			}
		}
	}
	return -1
}

func (m *amap) lookup(fr *frame, k value) (value, bool) {
	ix := m.find(fr, k)
	if ix < 0 {
		return nil, false
	}
	return m.vals[ix], true
}

func (m *amap) insert(fr *frame, k, v value) {
	ix := m.find(fr, k)
	if ix >= 0 {
		m.vals[ix] = v
		return
	}
	m.keys = append(m.keys, k)
	m.vals = append(m.vals, v)
	m.dead = append(m.dead, false)
	m.live++
	if isBasicKey(k) {
		m.fast[k] = len(m.keys) - 1
	} else if hasSymDeep(k) {
		m.nsym++
	}
}

func (m *amap) delete(fr *frame, k value) {
	ix := m.find(fr, k)
	if ix < 0 {
		return
	}
	m.dead[ix] = true
	m.live--
	if isBasicKey(m.keys[ix]) {
		delete(m.fast, m.keys[ix])
	} else if hasSymDeep(m.keys[ix]) {
		m.nsym--
	}
	m.vals[ix] = nil
}

type amapIter struct {
	m *amap
	i int
}

func (m *amap) iterator() iter { return &amapIter{m: m} }

func (it *amapIter) next() tuple {
	if it.m != nil {
		for it.i < len(it.m.keys) {
			i := it.i
			it.i++
			if !it.m.dead[i] {
				return tuple{true, it.m.keys[i], it.m.vals[i]}
			}
		}
	}
	return tuple{false, nil, nil}
}

// copyShallow duplicates the map (used by models that snapshot maps).
func (m *amap) copyShallow() *amap {
	if m == nil {
		return nil
	}
	n := &amap{keyType: m.keyType, fast: map[value]int{}}
	for i, k := range m.keys {
		if m.dead[i] {
			continue
		}
		n.keys = append(n.keys, k)
		n.vals = append(n.vals, m.vals[i])
		n.dead = append(n.dead, false)
		n.live++
		if isBasicKey(k) {
			n.fast[k] = len(n.keys) - 1
		} else if hasSymDeep(k) {
			n.nsym++
		}
	}
	return n
}
