package interp

// Goroutines, channels, select.
//
// Mode A (default): run-to-completion.  A `go` statement runs the new
// goroutine to completion at the spawn point (one representative schedule);
// channel operations never block (a blocking operation is an engine
// limitation and ends the path as inconclusive).
//
// Mode B (scheduler != nil): simulated threads with baton passing; see sched.go.

import (
	"fmt"
	"go/types"

	"golang.org/x/tools/go/ssa"
)

type threadKill struct{}

type schan struct {
	buf    []value
	cap    int
	closed bool
	id     int
	taken  int
}

func makeChan(fr *frame, size int) value {
	fr.i.pc.nchan++
	return &schan{cap: size, id: fr.i.pc.nchan}
}

func spawn(fr *frame, instr *ssa.Go, fn value, args []value) {
	if fr.i.sched != nil {
		fr.i.sched.spawn(fr, instr, fn, args)
		return
	}
	fr.i.pc.note("go statement executed run-to-completion")
	call(fr.i, nil, instr.Pos(), fn, args)
}

func chanSend(fr *frame, ch value, v value) {
	c, ok := ch.(*schan)
	if !ok || c == nil {
		panic(engineErr(fmt.Sprintf("send on %T", ch)))
	}
	if fr.i.sched != nil {
		fr.i.sched.send(fr, c, v)
		return
	}
	if c.closed {
		panic(runtimePanic{"send on closed channel"})
	}
	if len(c.buf) >= c.cap {
		panic(engineErr("channel send would block (run-to-completion threads)"))
	}
	c.buf = append(c.buf, v)
}

func chanRecv(fr *frame, ch value) (value, bool) {
	c, ok := ch.(*schan)
	if !ok || c == nil {
		panic(engineErr(fmt.Sprintf("receive on %T", ch)))
	}
	if fr.i.sched != nil {
		return fr.i.sched.recv(fr, c)
	}
	if len(c.buf) > 0 {
		v := c.buf[0]
		c.buf = c.buf[1:]
		return v, true
	}
	if c.closed {
		return nil, false
	}
	panic(engineErr("channel receive would block (run-to-completion threads)"))
}

func chanClose(fr *frame, ch value) {
	c, ok := ch.(*schan)
	if !ok || c == nil {
		panic(runtimePanic{"close of nil channel"})
	}
	if c.closed {
		panic(runtimePanic{"close of closed channel"})
	}
	c.closed = true
	if fr != nil && fr.i.sched != nil {
		fr.i.sched.wake()
	}
}

func doSelect(fr *frame, instr *ssa.Select) value {
	if fr.i.sched != nil {
		return fr.i.sched.sel(fr, instr)
	}
	chosen := -1
	var recv value
	recvOk := false
	for i, st := range instr.States {
		c := fr.get(st.Chan).(*schan)
		if c == nil {
			continue
		}
		if st.Dir == types.RecvOnly {
			if len(c.buf) > 0 {
				chosen = i
				recv = c.buf[0]
				c.buf = c.buf[1:]
				recvOk = true
				break
			}
			if c.closed {
				chosen = i
				break
			}
		} else {
			if c.closed {
				panic(runtimePanic{"send on closed channel"})
			}
			if len(c.buf) < c.cap {
				c.buf = append(c.buf, fr.get(st.Send))
				chosen = i
				break
			}
		}
	}
	if chosen < 0 && instr.Blocking {
		panic(engineErr("select would block (run-to-completion threads)"))
	}
	r := tuple{chosen, recvOk}
	for i, st := range instr.States {
		if st.Dir == types.RecvOnly {
			var v value
			if i == chosen && recvOk {
				v = recv
			} else {
				v = zero(st.Chan.Type().Underlying().(*types.Chan).Elem())
			}
			r = append(r, v)
		}
	}
	return r
}

