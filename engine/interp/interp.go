// Copyright 2013 The Go Authors. All rights reserved.
// Use of this source code is governed by a BSD-style
// license that can be found in the LICENSE file.

// Package interp is symgo's executor: a fork of golang.org/x/tools@v0.29.0
// go/ssa/interp (the reference concrete SSA interpreter) extended with
// symbolic scalar values (*sym), solver-decided branching (pathCtx.decide),
// association-list maps with symbolic keys, contract-level models of the
// standard library functions go-fed/activity calls (intrinsics.go), and the
// vf* harness API (vf.go).  See /verif/DESIGN.md §3 and Appendix D.
package interp

import (
	"fmt"
	"go/token"
	"go/types"
	"os"
	"reflect"
	"runtime"
	"slices"

	"golang.org/x/tools/go/ssa"
)

type continuation int

const (
	kNext continuation = iota
	kReturn
	kJump
)

// Mode is a bitmask of options affecting the interpreter.
type Mode uint

const (
	DisableRecover Mode = 1 << iota // Disable recover() in target programs; show interpreter crash instead.
	EnableTracing                   // Print a trace of all instructions as they are interpreted.
)

// runtimePanic is a Go run-time panic of the *target* program (nil
// dereference, index out of range, ...), raised explicitly by the engine.
type runtimePanic struct{ msg string }

func (r runtimePanic) Error() string { return r.msg }

// engineError marks a limitation or bug of the engine itself: the path is
// reported inconclusive, never as a verdict about the target.
type engineError struct{ msg string }

func engineErr(msg string) engineError { return engineError{msg} }

// pathAbort ends the current path (assumption failed, infeasible, budget).
type pathAbort struct {
	status string
	msg    string
}

type fnInfo struct {
	idx      map[ssa.Value]int
	n        int
	resolved bool
	ext      intrinsicFn // model / harness intrinsic, if any
	skip     bool        // initialiser of a non-target package
	bad      string      // unsupported external (engine limitation) message
	target   bool
}

// resolve classifies a function once per worker (fn.String() is expensive).
func (i *interpreter) resolve(fn *ssa.Function, inf *fnInfo) {
	inf.resolved = true
	inf.target = fn.Pkg != nil && i.ld.target[fn.Pkg]
	if fn.Parent() != nil {
		return
	}
	if inf.target && len(fn.Name()) > 2 && fn.Name()[:2] == "vf" && fn.Signature.Recv() == nil {
		if ext := vfIntrinsics[fn.Name()]; ext != nil {
			inf.ext = ext
			return
		}
	}
	name := fn.String()
	if ext := intrinsics[name]; ext != nil {
		inf.ext = ext
		return
	}
	if fn.Pkg != nil && !inf.target && fn.Name() == "init" {
		inf.skip = true
		return
	}
	if fn.Pkg != nil && !inf.target && !interpretable[name] {
		inf.bad = "unsupported external function: " + name
		return
	}
	if fn.Blocks == nil {
		if fn.Synthetic != "" && fn.Pkg == nil {
			inf.bad = "no code for synthetic function: " + name + " (" + fn.Synthetic + ")"
		} else {
			inf.bad = "no code for function: " + name
		}
	}
}

// State of one executing path.
type interpreter struct {
	prog               *ssa.Program
	globals            map[*ssa.Global]*value
	mode               Mode
	runtimeErrorString types.Type
	sizes              types.Sizes
	pc                 *pathCtx
	ld                 *Loaded
	fninfo             map[*ssa.Function]*fnInfo
	consts             map[*ssa.Const]value
	depth              int
	sched              *scheduler
	tacache            map[taKey]int8
}

type deferred struct {
	fn    value
	args  []value
	instr *ssa.Defer
	tail  *deferred
}

type frame struct {
	i                *interpreter
	caller           *frame
	fn               *ssa.Function
	info             *fnInfo
	block, prevBlock *ssa.BasicBlock
	env              []value // dynamic values of SSA variables, indexed by info.idx
	locals           []value
	defers           *deferred
	result           value
	panicking        bool
	panic            interface{}
	phitemps         []value // temporaries for parallel phi assignment
	callpos          token.Pos
	visits           map[*ssa.BasicBlock]int
}

func (i *interpreter) infoFor(fn *ssa.Function) *fnInfo {
	if inf := i.fninfo[fn]; inf != nil {
		return inf
	}
	inf := &fnInfo{idx: make(map[ssa.Value]int)}
	add := func(v ssa.Value) {
		inf.idx[v] = inf.n
		inf.n++
	}
	for _, p := range fn.Params {
		add(p)
	}
	for _, fv := range fn.FreeVars {
		add(fv)
	}
	for _, l := range fn.Locals {
		add(l)
	}
	for _, b := range fn.Blocks {
		for _, ins := range b.Instrs {
			if v, ok := ins.(ssa.Value); ok {
				if _, dup := inf.idx[v]; !dup {
					add(v)
				}
			}
		}
	}
	i.fninfo[fn] = inf
	return inf
}

func (fr *frame) set(key ssa.Value, v value) {
	fr.env[fr.info.idx[key]] = v
}

func (fr *frame) get(key ssa.Value) value {
	switch key := key.(type) {
	case nil:
		// Hack; simplifies handling of optional attributes
		// such as ssa.Slice.{Low,High}.
		return nil
	case *ssa.Function, *ssa.Builtin:
		return key
	case *ssa.Const:
		if v, ok := fr.i.consts[key]; ok {
			return v
		}
		v := constValue(key)
		switch v.(type) {
		case structure, array:
			// aggregates are mutable: do not share
		default:
			fr.i.consts[key] = v
		}
		return v
	case *ssa.Global:
		if r, ok := fr.i.globals[key]; ok {
			return r
		}
		// globals of non-target packages are created lazily, zero-valued
		cell := zero(mustDeref(key.Type()))
		fr.i.globals[key] = &cell
		return &cell
	}
	if ix, ok := fr.info.idx[key]; ok {
		return fr.env[ix]
	}
	panic(engineErr(fmt.Sprintf("get: no value for %T: %v", key, key.Name())))
}

func mustDeref(t types.Type) types.Type {
	if p, ok := t.Underlying().(*types.Pointer); ok {
		return p.Elem()
	}
	panic(fmt.Sprintf("mustDeref: %s is not a pointer", t))
}

// isAbort reports whether a recovered panic value must unwind the whole
// path without running target defers.
func isAbort(p interface{}) bool {
	switch p.(type) {
	case pathAbort, engineError, threadKill, childPanic:
		return true
	}
	return false
}

// runDefer runs a deferred call d.
// It always returns normally, but may set or clear fr.panic.
func (fr *frame) runDefer(d *deferred) {
	var ok bool
	defer func() {
		if !ok {
			// Deferred call created a new state of panic.
			p := recover()
			if isAbort(p) {
				panic(p)
			}
			fr.panicking = true
			fr.panic = p
		}
	}()
	call(fr.i, fr, d.instr.Pos(), d.fn, d.args)
	ok = true
}

// runDefers executes fr's deferred function calls in LIFO order.
func (fr *frame) runDefers() {
	for d := fr.defers; d != nil; d = d.tail {
		fr.runDefer(d)
	}
	fr.defers = nil
	if fr.panicking {
		panic(fr.panic) // new panic, or still panicking
	}
}

// lookupMethod returns the method set for type typ.
func lookupMethod(i *interpreter, typ types.Type, meth *types.Func) *ssa.Function {
	return i.prog.LookupMethod(typ, meth.Pkg(), meth.Name())
}

func derefPtr(x value, what string) *value {
	p, ok := x.(*value)
	if !ok {
		panic(engineErr(fmt.Sprintf("%s: expected pointer, got %T", what, x)))
	}
	if p == nil {
		panic(runtimePanic{"runtime error: invalid memory address or nil pointer dereference"})
	}
	return p
}

func indexPanic(i int64, n int) runtimePanic {
	return runtimePanic{fmt.Sprintf("runtime error: index out of range [%d] with length %d", i, n)}
}

// visitInstr interprets a single ssa.Instruction within the activation
// record frame.  It returns a continuation value indicating where to
// read the next instruction from.
func visitInstr(fr *frame, instr ssa.Instruction) continuation {
	switch instr := instr.(type) {
	case *ssa.DebugRef:
		// no-op

	case *ssa.UnOp:
		if fr.i.sched != nil && instr.Op == token.MUL {
			if p, ok := fr.get(instr.X).(*value); ok && p != nil {
				fr.i.sched.access(fr, p, false)
			}
		}
		fr.set(instr, unop(fr, instr, fr.get(instr.X)))

	case *ssa.BinOp:
		fr.set(instr, binop(fr, instr.Op, instr.X.Type(), fr.get(instr.X), fr.get(instr.Y)))

	case *ssa.Call:
		fn, args := prepareCall(fr, &instr.Call)
		fr.set(instr, call(fr.i, fr, instr.Pos(), fn, args))

	case *ssa.ChangeInterface:
		fr.set(instr, fr.get(instr.X))

	case *ssa.ChangeType:
		fr.set(instr, fr.get(instr.X)) // (can't fail)

	case *ssa.Convert:
		fr.set(instr, conv(fr, instr.Type(), instr.X.Type(), fr.get(instr.X)))

	case *ssa.SliceToArrayPointer:
		fr.set(instr, sliceToArrayPointer(instr.Type(), instr.X.Type(), fr.get(instr.X)))

	case *ssa.MakeInterface:
		fr.set(instr, iface{t: instr.X.Type(), v: fr.get(instr.X)})

	case *ssa.Extract:
		fr.set(instr, fr.get(instr.Tuple).(tuple)[instr.Index])

	case *ssa.Slice:
		fr.set(instr, slice(fr, fr.get(instr.X), fr.get(instr.Low), fr.get(instr.High), fr.get(instr.Max)))

	case *ssa.Return:
		switch len(instr.Results) {
		case 0:
		case 1:
			fr.result = fr.get(instr.Results[0])
		default:
			res := make([]value, 0, len(instr.Results))
			for _, r := range instr.Results {
				res = append(res, fr.get(r))
			}
			fr.result = tuple(res)
		}
		fr.block = nil
		return kReturn

	case *ssa.RunDefers:
		fr.runDefers()

	case *ssa.Panic:
		panic(targetPanic{fr.get(instr.X)})

	case *ssa.Send:
		chanSend(fr, fr.get(instr.Chan), fr.get(instr.X))

	case *ssa.Store:
		if fr.i.sched != nil {
			if p, ok := fr.get(instr.Addr).(*value); ok && p != nil {
				fr.i.sched.access(fr, p, true)
			}
		}
		store(mustDeref(instr.Addr.Type()), derefPtr(fr.get(instr.Addr), "Store"), fr.get(instr.Val))

	case *ssa.If:
		succ := 1
		switch c := fr.get(instr.Cond).(type) {
		case bool:
			if c {
				succ = 0
			}
		case *sym:
			if fr.i.pc.decide(c.e, fr) {
				succ = 0
			}
		default:
			panic(engineErr(fmt.Sprintf("If on %T", c)))
		}
		fr.prevBlock, fr.block = fr.block, fr.block.Succs[succ]
		return kJump

	case *ssa.Jump:
		fr.prevBlock, fr.block = fr.block, fr.block.Succs[0]
		return kJump

	case *ssa.Defer:
		fn, args := prepareCall(fr, &instr.Call)
		defers := &fr.defers
		if into := fr.get(instr.DeferStack); into != nil {
			defers = into.(**deferred)
		}
		*defers = &deferred{
			fn:    fn,
			args:  args,
			instr: instr,
			tail:  *defers,
		}

	case *ssa.Go:
		fn, args := prepareCall(fr, &instr.Call)
		spawn(fr, instr, fn, args)

	case *ssa.MakeChan:
		fr.set(instr, makeChan(fr, int(asInt64(fr.get(instr.Size)))))

	case *ssa.Alloc:
		var addr *value
		if instr.Heap {
			// new
			addr = new(value)
			fr.set(instr, addr)
		} else {
			// local
			addr = fr.get(instr).(*value)
		}
		*addr = zero(mustDeref(instr.Type()))

	case *ssa.MakeSlice:
		capv := fr.i.pc.concretize(fr, fr.get(instr.Cap), 0, 16, "MakeSlice cap")
		lenv := fr.i.pc.concretize(fr, fr.get(instr.Len), 0, int(capv), "MakeSlice len")
		if capv < 0 || lenv < 0 || lenv > capv {
			panic(runtimePanic{"runtime error: makeslice: len out of range"})
		}
		slice := make([]value, capv)
		tElt := instr.Type().Underlying().(*types.Slice).Elem()
		for i := range slice {
			slice[i] = zero(tElt)
		}
		fr.set(instr, slice[:lenv])

	case *ssa.MakeMap:
		fr.set(instr, newAmap(instr.Type().Underlying().(*types.Map)))

	case *ssa.Range:
		fr.set(instr, rangeIter(fr, fr.get(instr.X), instr.X.Type()))

	case *ssa.Next:
		fr.set(instr, fr.get(instr.Iter).(iter).next())

	case *ssa.FieldAddr:
		p := derefPtr(fr.get(instr.X), "FieldAddr")
		fr.set(instr, &(*p).(structure)[instr.Field])

	case *ssa.Field:
		fr.set(instr, fr.get(instr.X).(structure)[instr.Field])

	case *ssa.IndexAddr:
		x := fr.get(instr.X)
		switch x := x.(type) {
		case []value:
			idx := fr.i.pc.concretize(fr, fr.get(instr.Index), 0, len(x)-1, "IndexAddr")
			if idx < 0 || idx >= int64(len(x)) {
				panic(indexPanic(idx, len(x)))
			}
			fr.set(instr, &x[idx])
		case *value: // *array
			a := (*derefPtr(x, "IndexAddr")).(array)
			idx := fr.i.pc.concretize(fr, fr.get(instr.Index), 0, len(a)-1, "IndexAddr")
			if idx < 0 || idx >= int64(len(a)) {
				panic(indexPanic(idx, len(a)))
			}
			fr.set(instr, &a[idx])
		default:
			panic(engineErr(fmt.Sprintf("unexpected x type in IndexAddr: %T", x)))
		}

	case *ssa.Index:
		x := fr.get(instr.X)
		switch x := x.(type) {
		case array:
			idx := fr.i.pc.concretize(fr, fr.get(instr.Index), 0, len(x)-1, "Index")
			if idx < 0 || idx >= int64(len(x)) {
				panic(indexPanic(idx, len(x)))
			}
			fr.set(instr, x[idx])
		case string, *sym:
			fr.set(instr, stringIndex(fr, x, fr.get(instr.Index)))
		default:
			panic(engineErr(fmt.Sprintf("unexpected x type in Index: %T", x)))
		}

	case *ssa.Lookup:
		if fr.i.sched != nil {
			if m, ok := fr.get(instr.X).(*amap); ok && m != nil {
				fr.i.sched.access(fr, m, false)
			}
		}
		fr.set(instr, lookup(fr, instr, fr.get(instr.X), fr.get(instr.Index)))

	case *ssa.MapUpdate:
		m, ok := fr.get(instr.Map).(*amap)
		if !ok {
			panic(engineErr(fmt.Sprintf("illegal map type: %T", fr.get(instr.Map))))
		}
		if m == nil {
			panic(runtimePanic{"assignment to entry in nil map"})
		}
		if fr.i.sched != nil {
			fr.i.sched.access(fr, m, true)
		}
		m.insert(fr, fr.get(instr.Key), fr.get(instr.Value))

	case *ssa.TypeAssert:
		fr.set(instr, typeAssert(fr.i, instr, fr.get(instr.X).(iface)))

	case *ssa.MakeClosure:
		bindings := make([]value, 0, len(instr.Bindings))
		for _, binding := range instr.Bindings {
			bindings = append(bindings, fr.get(binding))
		}
		fr.set(instr, &closure{instr.Fn.(*ssa.Function), bindings})

	case *ssa.Phi:
		panic(engineErr("unreachable: phi")) // phis are processed at block entry

	case *ssa.Select:
		fr.set(instr, doSelect(fr, instr))

	default:
		panic(engineErr(fmt.Sprintf("unexpected instruction: %T", instr)))
	}

	return kNext
}

// prepareCall determines the function value and argument values for a
// function call in a Call, Go or Defer instruction, performing
// interface method lookup if needed.
func prepareCall(fr *frame, call *ssa.CallCommon) (fn value, args []value) {
	v := fr.get(call.Value)
	if call.Method == nil {
		// Function call.
		fn = v
		args = make([]value, 0, len(call.Args))
	} else {
		// Interface method invocation.
		recv := v.(iface)
		if recv.t == nil {
			panic(runtimePanic{"runtime error: invalid memory address or nil pointer dereference (method " + call.Method.Name() + " invoked on nil interface)"})
		}
		if f := lookupMethod(fr.i, recv.t, call.Method); f == nil {
			// Unreachable in well-typed programs.
			panic(engineErr(fmt.Sprintf("method set for dynamic type %v does not contain %s", recv.t, call.Method)))
		} else {
			fn = f
		}
		args = make([]value, 0, len(call.Args)+1)
		args = append(args, recv.v)
	}
	for _, arg := range call.Args {
		args = append(args, fr.get(arg))
	}
	return
}

// call interprets a call to a function (function, builtin or closure)
// fn with arguments args, returning its result.
// callpos is the position of the callsite.
func call(i *interpreter, caller *frame, callpos token.Pos, fn value, args []value) value {
	switch fn := fn.(type) {
	case *ssa.Function:
		if fn == nil {
			panic(runtimePanic{"runtime error: invalid memory address or nil pointer dereference (call of nil func)"})
		}
		return callSSA(i, caller, callpos, fn, args, nil)
	case *closure:
		return callSSA(i, caller, callpos, fn.Fn, args, fn.Env)
	case *ssa.Builtin:
		return callBuiltin(caller, callpos, fn, args)
	}
	panic(engineErr(fmt.Sprintf("cannot call %T", fn)))
}

func loc(fset *token.FileSet, pos token.Pos) string {
	if pos == token.NoPos {
		return ""
	}
	return " at " + fset.Position(pos).String()
}

const maxCallDepth = 200

// callSSA interprets a call to function fn with arguments args,
// and lexical environment env, returning its result.
// callpos is the position of the callsite.
func callSSA(i *interpreter, caller *frame, callpos token.Pos, fn *ssa.Function, args []value, env []value) value {
	if i.mode&EnableTracing != 0 {
		fset := fn.Prog.Fset
		fmt.Fprintf(os.Stderr, "Entering %s%s.\n", fn, loc(fset, fn.Pos()))
		suffix := ""
		if caller != nil {
			suffix = ", resuming " + caller.fn.String() + loc(fset, callpos)
		}
		defer fmt.Fprintf(os.Stderr, "Leaving %s%s.\n", fn, suffix)
	}
	fr := &frame{
		i:       i,
		caller:  caller, // for panic/recover
		fn:      fn,
		callpos: callpos,
	}
	inf := i.infoFor(fn)
	if !inf.resolved {
		i.resolve(fn, inf)
	}
	if inf.ext != nil {
		return inf.ext(fr, args)
	}
	if inf.skip {
		return nil // initialisers of non-target packages are not run
	}
	if inf.bad != "" {
		panic(engineErr(inf.bad))
	}

	// generic function body?
	if fn.TypeParams().Len() > 0 && len(fn.TypeArgs()) == 0 {
		panic(engineErr("generic function body: " + fn.String()))
	}
	i.depth++
	if i.depth > maxCallDepth {
		panic(pathAbort{"unwind", "call depth bound exceeded in " + fn.String()})
	}
	defer func() { i.depth-- }()

	if i.pc != nil && i.pc.run != nil && inf.target {
		for _, a := range args {
			if _, ok := a.(*sym); ok {
				i.pc.touch(fn)
				break
			}
		}
	}

	fr.info = inf
	fr.env = make([]value, fr.info.n)
	fr.block = fn.Blocks[0]
	fr.locals = make([]value, len(fn.Locals))
	for i, l := range fn.Locals {
		fr.locals[i] = zero(mustDeref(l.Type()))
		fr.set(l, &fr.locals[i])
	}
	for i, p := range fn.Params {
		fr.set(p, args[i])
	}
	for i, fv := range fn.FreeVars {
		fr.set(fv, env[i])
	}
	for fr.block != nil {
		runFrame(fr)
	}
	return fr.result
}

// runFrame executes SSA instructions starting at fr.block and
// continuing until a return, a panic, or a recovered panic.
func runFrame(fr *frame) {
	defer func() {
		if fr.block == nil {
			return // normal return
		}
		p := recover()
		if isAbort(p) {
			panic(p)
		}
		if fr.i.mode&DisableRecover != 0 {
			panic(p)
		}
		if re, ok := p.(runtime.Error); ok {
			// A raw Go run-time error inside the engine while executing
			// target semantics; keep the engine stack for diagnosis.
			if _, isTA := re.(*runtime.TypeAssertionError); isTA {
				buf := make([]byte, 4096)
				buf = buf[:runtime.Stack(buf, false)]
				panic(engineErr("engine type assertion: " + re.Error() + "\n" + string(buf)))
			}
			if fr.i.pc != nil && fr.i.pc.rawPanicStack == "" {
				buf := make([]byte, 4096)
				buf = buf[:runtime.Stack(buf, false)]
				fr.i.pc.rawPanicStack = string(buf)
			}
		}
		if fr.i.pc != nil && fr.i.pc.panicSite == "" {
			fr.i.pc.panicSite = fr.site()
		}
		fr.panicking = true
		fr.panic = p
		fr.runDefers()
		fr.block = fr.fn.Recover
	}()

	for {
		nonPhis := executePhis(fr)
		pc := fr.i.pc
		for _, instr := range nonPhis {
			if fr.i.mode&EnableTracing != 0 {
				if v, ok := instr.(ssa.Value); ok {
					fmt.Fprintln(os.Stderr, "\t", v.Name(), "=", instr)
				} else {
					fmt.Fprintln(os.Stderr, "\t", instr)
				}
			}
			pc.instrs++
			if pc.instrs > pc.instrBudget {
				panic(pathAbort{"unwind", "instruction budget exceeded (possible non-termination) in " + fr.fn.String()})
			}
			if visitInstr(fr, instr) == kReturn {
				return
			}
			// Inv: kNext (continue) or kJump (last instr)
		}
	}
}

// site describes the current source position of the innermost target frame.
func (fr *frame) site() string {
	for f := fr; f != nil; f = f.caller {
		if f.fn != nil && f.fn.Pkg != nil && f.i.ld.target[f.fn.Pkg] && !f.i.ld.isHarnessFn(f.fn) {
			return f.fn.String()
		}
	}
	return "harness"
}

// executePhis executes the phi-nodes at the start of the current
// block and returns the non-phi instructions.
func executePhis(fr *frame) []ssa.Instruction {
	firstNonPhi := -1
	for i, instr := range fr.block.Instrs {
		if _, ok := instr.(*ssa.Phi); !ok {
			firstNonPhi = i
			break
		}
	}
	// Inv: 0 <= firstNonPhi; every block contains a non-phi.

	nonPhis := fr.block.Instrs[firstNonPhi:]
	if firstNonPhi > 0 {
		phis := fr.block.Instrs[:firstNonPhi]
		predIndex := slices.Index(fr.block.Preds, fr.prevBlock)
		fr.phitemps = fr.phitemps[:0]
		for _, phi := range phis {
			phi := phi.(*ssa.Phi)
			fr.phitemps = append(fr.phitemps, fr.get(phi.Edges[predIndex]))
		}
		for i, phi := range phis {
			fr.set(phi.(*ssa.Phi), fr.phitemps[i])
		}
	}
	return nonPhis
}

// doRecover implements the recover() built-in.
func doRecover(caller *frame) value {
	if caller.i.mode&DisableRecover == 0 &&
		caller != nil && !caller.panicking &&
		caller.caller != nil && caller.caller.panicking {
		caller.caller.panicking = false
		p := caller.caller.panic
		caller.caller.panic = nil

		switch p := p.(type) {
		case targetPanic:
			// The target program explicitly called panic().
			return p.v
		case runtimePanic:
			return iface{caller.i.runtimeErrorString, p.msg}
		case runtime.Error:
			// The interpreter encountered a runtime error.
			return iface{caller.i.runtimeErrorString, p.Error()}
		case string:
			// The interpreter explicitly called panic().
			return iface{caller.i.runtimeErrorString, p}
		default:
			panic(engineErr(fmt.Sprintf("unexpected panic type %T in target call to recover()", p)))
		}
	}
	return iface{}
}

var _ = reflect.TypeOf
