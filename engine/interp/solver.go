package interp

// A persistent SMT solver child process (cvc5 primary; z3 for cross-checks).

import (
	"bufio"
	"fmt"
	"io"
	"os"
	"os/exec"
	"strings"
	"time"
)

type solverKind int

const (
	solverCVC5 solverKind = iota
	solverZ3
	solverZ3New
)

type solver struct {
	kind    solverKind
	cmd     *exec.Cmd
	in      io.WriteCloser
	out     *bufio.Reader
	log     *os.File
	queries int
	wall    time.Duration
	dead    bool
	tlimit  int
	uses    int
}

const smtPrelude = `(set-option :produce-models true)
(set-logic ALL)
(declare-sort Atom 0)
(declare-fun iri_host (Atom) Atom)
(declare-fun atom_str (Atom) String)
(declare-fun url_scheme (String) String)
(declare-fun url_host (String) String)
(declare-fun url_ok (String) Bool)
(declare-fun url_norm (String) String)
(assert (and (url_ok "https://www.w3.org/ns/activitystreams#Public") (= (url_scheme "https://www.w3.org/ns/activitystreams#Public") "https") (= (url_host "https://www.w3.org/ns/activitystreams#Public") "www.w3.org") (= (url_norm "https://www.w3.org/ns/activitystreams#Public") "https://www.w3.org/ns/activitystreams#Public")))
(assert (and (url_ok "as:Public") (= (url_scheme "as:Public") "as") (= (url_host "as:Public") "") (= (url_norm "as:Public") "as:Public")))
(assert (and (url_ok "https://www.w3.org/ns/activitystreams") (= (url_scheme "https://www.w3.org/ns/activitystreams") "https") (= (url_host "https://www.w3.org/ns/activitystreams") "www.w3.org")))
`

func newSolver(kind solverKind, tlimitMs int, logPath string) (*solver, error) {
	var cmd *exec.Cmd
	switch kind {
	case solverCVC5:
		cmd = exec.Command("cvc5", "--incremental", "--strings-exp", "--lang=smt2", fmt.Sprintf("--tlimit-per=%d", tlimitMs))
	case solverZ3:
		cmd = exec.Command("z3", "-in", fmt.Sprintf("-t:%d", tlimitMs))
	case solverZ3New:
		cmd = exec.Command("z3-new", "-in", fmt.Sprintf("-t:%d", tlimitMs))
	}
	in, err := cmd.StdinPipe()
	if err != nil {
		return nil, err
	}
	outp, err := cmd.StdoutPipe()
	if err != nil {
		return nil, err
	}
	cmd.Stderr = cmd.Stdout
	if err := cmd.Start(); err != nil {
		return nil, err
	}
	s := &solver{kind: kind, cmd: cmd, in: in, out: bufio.NewReaderSize(outp, 1<<16), tlimit: tlimitMs}
	if logPath != "" {
		s.log, _ = os.Create(logPath)
	}
	s.send(smtPrelude)
	return s, nil
}

func (s *solver) send(txt string) {
	if s.dead {
		return
	}
	if s.log != nil {
		s.log.WriteString(txt)
		if !strings.HasSuffix(txt, "\n") {
			s.log.WriteString("\n")
		}
	}
	if _, err := io.WriteString(s.in, txt); err != nil {
		s.dead = true
		return
	}
	if !strings.HasSuffix(txt, "\n") {
		io.WriteString(s.in, "\n")
	}
}

func (s *solver) close() {
	if s == nil {
		return
	}
	if !s.dead {
		io.WriteString(s.in, "(exit)\n")
	}
	s.in.Close()
	done := make(chan struct{})
	go func() { s.cmd.Wait(); close(done) }()
	select {
	case <-done:
	case <-time.After(2 * time.Second):
		s.cmd.Process.Kill()
	}
	if s.log != nil {
		s.log.Close()
	}
}

// readSexp reads one complete response: an atom line or a balanced s-expression.
func (s *solver) readSexp() (string, error) {
	var b strings.Builder
	depth := 0
	inStr := false
	started := false
	for {
		line, err := s.out.ReadString('\n')
		if err != nil && line == "" {
			s.dead = true
			return b.String(), err
		}
		for i := 0; i < len(line); i++ {
			c := line[i]
			if inStr {
				if c == '"' {
					inStr = false
				}
				continue
			}
			switch c {
			case '"':
				inStr = true
				started = true
			case '(':
				depth++
				started = true
			case ')':
				depth--
			case ' ', '\n', '\t', '\r':
			default:
				started = true
			}
		}
		b.WriteString(line)
		if started && depth <= 0 && !inStr {
			return strings.TrimSpace(b.String()), nil
		}
	}
}

// checkSat runs (check-sat) in the current context; returns "sat", "unsat",
// "unknown" or "error: ...".
func (s *solver) checkSat() string {
	if s.dead {
		return "error: solver dead"
	}
	t0 := time.Now()
	s.send("(check-sat)\n")
	r, err := s.readSexp()
	s.queries++
	s.wall += time.Since(t0)
	if s.log != nil {
		fmt.Fprintf(s.log, "; -> %s (%.1f ms)\n", r, float64(time.Since(t0).Microseconds())/1000)
	}
	if err != nil {
		return "error: " + err.Error()
	}
	switch r {
	case "sat", "unsat", "unknown":
		return r
	}
	if strings.Contains(r, "timeout") || strings.Contains(r, "interrupted") {
		return "unknown"
	}
	return "error: " + r
}

// getValues returns the model values of the given terms as raw SMT text.
func (s *solver) getValues(terms []string) (map[string]string, error) {
	res := map[string]string{}
	// query in chunks to keep lines bounded
	for i := 0; i < len(terms); i += 20 {
		j := i + 20
		if j > len(terms) {
			j = len(terms)
		}
		s.send("(get-value (" + strings.Join(terms[i:j], " ") + "))\n")
		r, err := s.readSexp()
		if err != nil {
			return res, err
		}
		if strings.HasPrefix(r, "(error") {
			return res, fmt.Errorf("%s", r)
		}
		pairs, err := parseValuePairs(r)
		if err != nil {
			return res, err
		}
		if len(pairs) != j-i {
			return res, fmt.Errorf("get-value: got %d pairs for %d terms: %s", len(pairs), j-i, r)
		}
		for k, p := range pairs {
			res[terms[i+k]] = p
		}
	}
	return res, nil
}

// parseValuePairs parses "((t v) (t v) ...)" and returns the v's.
func parseValuePairs(r string) ([]string, error) {
	toks, err := sexpParse(r)
	if err != nil {
		return nil, err
	}
	top, ok := toks.([]interface{})
	if !ok {
		return nil, fmt.Errorf("get-value: unexpected %q", r)
	}
	var out []string
	for _, p := range top {
		pair, ok := p.([]interface{})
		if !ok || len(pair) != 2 {
			return nil, fmt.Errorf("get-value: unexpected pair in %q", r)
		}
		out = append(out, sexpString(pair[1]))
	}
	return out, nil
}

// sexpParse parses one s-expression into nested []interface{} / string atoms.
func sexpParse(s string) (interface{}, error) {
	pos := 0
	var parse func() (interface{}, error)
	skip := func() {
		for pos < len(s) && (s[pos] == ' ' || s[pos] == '\n' || s[pos] == '\t' || s[pos] == '\r') {
			pos++
		}
	}
	parse = func() (interface{}, error) {
		skip()
		if pos >= len(s) {
			return nil, fmt.Errorf("sexp: unexpected end")
		}
		switch s[pos] {
		case '(':
			pos++
			var list []interface{}
			for {
				skip()
				if pos >= len(s) {
					return nil, fmt.Errorf("sexp: unbalanced")
				}
				if s[pos] == ')' {
					pos++
					return list, nil
				}
				e, err := parse()
				if err != nil {
					return nil, err
				}
				list = append(list, e)
			}
		case '"':
			start := pos
			pos++
			for pos < len(s) {
				if s[pos] == '"' {
					if pos+1 < len(s) && s[pos+1] == '"' {
						pos += 2
						continue
					}
					pos++
					return s[start:pos], nil
				}
				pos++
			}
			return nil, fmt.Errorf("sexp: unterminated string")
		case '|':
			start := pos
			pos++
			for pos < len(s) && s[pos] != '|' {
				pos++
			}
			pos++
			return s[start:pos], nil
		default:
			start := pos
			for pos < len(s) && !strings.ContainsRune(" \n\t\r()", rune(s[pos])) {
				pos++
			}
			return s[start:pos], nil
		}
	}
	return parse()
}

func sexpString(e interface{}) string {
	switch x := e.(type) {
	case string:
		return x
	case []interface{}:
		parts := make([]string, len(x))
		for i, p := range x {
			parts[i] = sexpString(p)
		}
		return "(" + strings.Join(parts, " ") + ")"
	}
	return "?"
}

// decodeSMTString decodes an SMT-LIB string literal (with quotes) to Go bytes.
func decodeSMTString(lit string) (string, bool) {
	if len(lit) < 2 || lit[0] != '"' || lit[len(lit)-1] != '"' {
		return "", false
	}
	s := lit[1 : len(lit)-1]
	var b []byte
	for i := 0; i < len(s); i++ {
		c := s[i]
		if c == '"' && i+1 < len(s) && s[i+1] == '"' {
			b = append(b, '"')
			i++
			continue
		}
		if c == '\\' && i+2 < len(s) && s[i+1] == 'u' {
			if s[i+2] == '{' {
				j := strings.IndexByte(s[i:], '}')
				if j > 0 {
					var cp int
					fmt.Sscanf(s[i+3:i+j], "%x", &cp)
					b = appendCodePoint(b, cp)
					i += j
					continue
				}
			} else if i+5 < len(s) {
				var cp int
				if _, err := fmt.Sscanf(s[i+2:i+6], "%x", &cp); err == nil {
					b = appendCodePoint(b, cp)
					i += 5
					continue
				}
			}
		}
		b = append(b, c)
	}
	return string(b), true
}

func appendCodePoint(b []byte, cp int) []byte {
	if cp < 256 {
		return append(b, byte(cp)) // byte-string model: code point = byte
	}
	return append(b, []byte(string(rune(cp)))...)
}
