// Copyright 2013 The Go Authors. All rights reserved.
// Use of this source code is governed by a BSD-style
// license that can be found in the LICENSE file.

package interp

// Custom hashtable atop map.
// For use when the key's equivalence relation is not consistent with ==.

// The Go specification doesn't address the atomicity of map operations.
// The FAQ states that an implementation is permitted to crash on
// concurrent map access.

import (
	"go/types"
)

type hashable interface {
	hash(t types.Type) int
	eq(t types.Type, x interface{}) bool
}

type entry struct {
	key   hashable
	value value
	next  *entry
}

// A hashtable atop the built-in map.  Since each bucket contains
// exactly one hash value, there's no need to perform hash-equality
// tests when walking the linked list.  Rehashing is done by the
// underlying map.
type hashmap struct {
	keyType types.Type
	table   map[int]*entry
	length  int // number of entries in map
}

// makeMap returns an empty initialized map of key type kt,
// preallocating space for reserve elements.
func makeMap(kt types.Type, reserve int64) value {
	if usesBuiltinMap(kt) {
		return make(map[value]value, reserve)
	}
	return &hashmap{keyType: kt, table: make(map[int]*entry, reserve)}
}

// delete removes the association for key k, if any.
func (m *hashmap) delete(k hashable) {
	if m != nil {
		hash := k.hash(m.keyType)
		head := m.table[hash]
		if head != nil {
			if k.eq(m.keyType, head.key) {
				m.table[hash] = head.next
				m.length--
				return
			}
			prev := head
			for e := head.next; e != nil; e = e.next {
				if k.eq(m.keyType, e.key) {
					prev.next = e.next
					m.length--
					return
				}
				prev = e
			}
		}
	}
}

// lookup returns the value associated with key k, if present, or
// value(nil) otherwise.
func (m *hashmap) lookup(k hashable) value {
	if m != nil {
		hash := k.hash(m.keyType)
		for e := m.table[hash]; e != nil; e = e.next {
			if k.eq(m.keyType, e.key) {
				return e.value
			}
		}
	}
	return nil
}

// insert updates the map to associate key k with value v.  If there
// was already an association for an eq() (though not necessarily ==)
// k, the previous key remains in the map and its associated value is
// updated.
func (m *hashmap) insert(k hashable, v value) {
	hash := k.hash(m.keyType)
	head := m.table[hash]
	for e := head; e != nil; e = e.next {
		if k.eq(m.keyType, e.key) {
			e.value = v
			return
		}
	}
	m.table[hash] = &entry{
		key:   k,
		value: v,
		next:  head,
	}
	m.length++
}

// len returns the number of key/value associations in the map.
func (m *hashmap) len() int {
	if m != nil {
		return m.length
	}
	return 0
}

// entries returns a rangeable map of entries.
func (m *hashmap) entries() map[int]*entry {
	if m != nil {
		return m.table
	}
	return nil
}
