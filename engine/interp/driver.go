package interp

// Loading the target program and driving the path exploration.

import (
	"fmt"
	"go/token"
	"go/types"
	"os"
	"path/filepath"
	"runtime"
	"sort"
	"strings"
	"sync"
	"time"

	"golang.org/x/tools/go/packages"
	"golang.org/x/tools/go/ssa"
	"golang.org/x/tools/go/ssa/ssautil"
)

type LoadOptions struct {
	Dir      string            // module directory (e.g. /repo)
	Patterns []string          // e.g. ./pub
	Overlay  map[string][]byte // absolute file name -> content
	Tags     string            // build tags
	Module   string            // module path prefix of target packages
}

type Loaded struct {
	Prog       *ssa.Program
	Pkgs       []*ssa.Package
	Main       *ssa.Package
	Fset       *token.FileSet
	target     map[*ssa.Package]bool
	harnessFns map[*ssa.Function]bool
	byPath     map[string]*ssa.Package
	LoadWall   time.Duration
	NumFuncs   int
	tcache     sync.Map
	hcache     sync.Map
}

func Load(o LoadOptions) (*Loaded, error) {
	t0 := time.Now()
	cfg := &packages.Config{
		Mode:    packages.LoadAllSyntax,
		Dir:     o.Dir,
		Overlay: o.Overlay,
		Env:     append(os.Environ(), "GOFLAGS=-mod=mod", "GOPROXY=off", "GOSUMDB=off", "GOTOOLCHAIN=local"),
	}
	if o.Tags != "" {
		cfg.BuildFlags = []string{"-tags=" + o.Tags}
	}
	initial, err := packages.Load(cfg, o.Patterns...)
	if err != nil {
		return nil, err
	}
	var errs []string
	packages.Visit(initial, nil, func(p *packages.Package) {
		for _, e := range p.Errors {
			errs = append(errs, e.Error())
		}
	})
	if len(errs) > 0 {
		return nil, fmt.Errorf("load errors:\n%s", strings.Join(errs, "\n"))
	}
	prog, pkgs := ssautil.AllPackages(initial, ssa.InstantiateGenerics)
	ld := &Loaded{Prog: prog, Fset: prog.Fset, target: map[*ssa.Package]bool{}, harnessFns: map[*ssa.Function]bool{}, byPath: map[string]*ssa.Package{}}
	for _, p := range prog.AllPackages() {
		ld.byPath[p.Pkg.Path()] = p
		if strings.HasPrefix(p.Pkg.Path(), o.Module) {
			ld.target[p] = true
		}
	}
	// build target packages and the few stdlib packages whose bodies we interpret
	var wg sync.WaitGroup
	sem := make(chan struct{}, runtime.NumCPU())
	for _, p := range prog.AllPackages() {
		if ld.target[p] || p.Pkg.Path() == "errors" {
			wg.Add(1)
			sem <- struct{}{}
			go func(p *ssa.Package) {
				defer wg.Done()
				p.Build()
				<-sem
			}(p)
		}
	}
	wg.Wait()
	for _, p := range pkgs {
		if p != nil {
			ld.Pkgs = append(ld.Pkgs, p)
		}
	}
	if len(ld.Pkgs) == 0 {
		return nil, fmt.Errorf("no packages")
	}
	ld.Main = ld.Pkgs[0]
	for p := range ld.target {
		for _, m := range p.Members {
			if f, ok := m.(*ssa.Function); ok {
				ld.NumFuncs++
				pos := prog.Fset.Position(f.Pos())
				if strings.HasPrefix(filepath.Base(pos.Filename), "zz_vf") {
					ld.harnessFns[f] = true
				}
			}
		}
	}
	ld.LoadWall = time.Since(t0)
	return ld, nil
}

// isHarnessFn reports whether fn is defined in a harness overlay file (zz_vf*).
func (ld *Loaded) isHarnessFn(fn *ssa.Function) bool {
	if v, ok := ld.hcache.Load(fn); ok {
		return v.(bool)
	}
	f := fn
	for f.Parent() != nil {
		f = f.Parent()
	}
	pos := f.Pos()
	if pos == token.NoPos && f.Synthetic != "" {
		// wrappers/bound methods: look at the underlying object
		if o := f.Object(); o != nil {
			pos = o.Pos()
		}
	}
	r := false
	if pos != token.NoPos {
		r = strings.HasPrefix(filepath.Base(ld.Fset.Position(pos).Filename), "zz_vf")
	}
	ld.hcache.Store(fn, r)
	return r
}

// namedType returns the types.Type of pkgpath.name.
func (ld *Loaded) namedType(pkgpath, name string) types.Type {
	key := pkgpath + "." + name
	if t, ok := ld.tcache.Load(key); ok {
		return t.(types.Type)
	}
	p := ld.byPath[pkgpath]
	if p == nil {
		panic(engineErr("package not loaded: " + pkgpath))
	}
	obj := p.Pkg.Scope().Lookup(name)
	if obj == nil {
		panic(engineErr("type not found: " + key))
	}
	ld.tcache.Store(key, obj.Type())
	return obj.Type()
}

type RunOptions struct {
	Workers         int
	InstrBudget     int64
	MaxPaths        int
	MaxDecisions    int
	SolverTimeoutMs int
	Trace           bool
	LogDir          string
	Decisions       []int32 // run exactly this path (debug)
	Single          bool
	Timeout         time.Duration
	Param           map[string]int // harness parameters (vfParam)
}

type PathSample struct {
	Decisions []int32  `json:"decisions"`
	Status    string   `json:"status"`
	Instrs    int64    `json:"instrs"`
	PC        []string `json:"pc,omitempty"`
}

type Result struct {
	Harness      string
	Paths        int
	PathsOK      int
	Pruned       int
	Infeasible   int
	PanicPaths   int
	Violations   []*Violation
	Inconclusive map[string]int
	Covers       map[string]int
	Notes        map[string]int
	Touched      map[string]bool
	Instrs       int64
	FeasChecks   int
	AssertChecks int
	SolverWall   time.Duration
	SolverCalls  int
	Wall         time.Duration
	MaxDepth     int
	Samples      []PathSample
	Exhausted    bool // work list ran empty (all paths within bounds explored)
	DistinctPCs  int
}

type Run struct {
	ld      *Loaded
	harness string
	fn      *ssa.Function
	opts    RunOptions
	mu      sync.Mutex
	cond    *sync.Cond
	stack   [][]int32
	active  int
	stop    bool
	res     *Result
	t0      time.Time
	hangs   int
}

func (r *Run) push(p []int32) {
	r.mu.Lock()
	r.stack = append(r.stack, p)
	r.mu.Unlock()
	r.cond.Signal()
}

func (r *Run) pop() ([]int32, bool) {
	r.mu.Lock()
	defer r.mu.Unlock()
	for {
		if r.stop {
			return nil, false
		}
		if n := len(r.stack); n > 0 {
			p := r.stack[n-1]
			r.stack = r.stack[:n-1]
			r.active++
			return p, true
		}
		if r.active == 0 {
			r.cond.Broadcast()
			return nil, false
		}
		r.cond.Wait()
	}
}

func (r *Run) done() {
	r.mu.Lock()
	r.active--
	if r.active == 0 && len(r.stack) == 0 {
		r.cond.Broadcast()
	}
	r.mu.Unlock()
}

// RunHarness explores all paths of the named harness function.
func (ld *Loaded) RunHarness(name string, opts RunOptions) (*Result, error) {
	fn := ld.Main.Func(name)
	if fn == nil {
		return nil, fmt.Errorf("harness %s not found in %s", name, ld.Main.Pkg.Path())
	}
	if opts.Workers <= 0 {
		opts.Workers = runtime.NumCPU()
	}
	if opts.InstrBudget == 0 {
		opts.InstrBudget = 20_000_000
	}
	if opts.SolverTimeoutMs == 0 {
		opts.SolverTimeoutMs = 60000
	}
	if opts.MaxPaths == 0 {
		opts.MaxPaths = 2_000_000
	}
	r := &Run{ld: ld, harness: name, fn: fn, opts: opts, t0: time.Now()}
	r.cond = sync.NewCond(&r.mu)
	r.res = &Result{Harness: name, Inconclusive: map[string]int{}, Covers: map[string]int{}, Notes: map[string]int{}, Touched: map[string]bool{}}
	if opts.Decisions != nil || opts.Single {
		opts.Workers = 1
		r.opts.Workers = 1
		r.stack = [][]int32{opts.Decisions}
	} else {
		r.stack = [][]int32{nil}
	}
	var wg sync.WaitGroup
	for w := 0; w < r.opts.Workers; w++ {
		wg.Add(1)
		go func(w int) {
			defer wg.Done()
			r.worker(w)
		}(w)
	}
	wg.Wait()
	r.res.Wall = time.Since(r.t0)
	r.res.Exhausted = !r.stop && len(r.stack) == 0
	sort.Slice(r.res.Violations, func(i, j int) bool {
		a, b := r.res.Violations[i], r.res.Violations[j]
		if a.Label != b.Label {
			return a.Label < b.Label
		}
		return len(a.Decisions) < len(b.Decisions)
	})
	return r.res, nil
}

func (w *worker) taCache() map[taKey]int8 {
	if w.ta == nil {
		w.ta = make(map[taKey]int8)
	}
	return w.ta
}

type worker struct {
	ta   map[taKey]int8
	id   int
	sol  *solver
	used int
	fi   map[*ssa.Function]*fnInfo
}

func (r *Run) worker(id int) {
	w := &worker{id: id}
	defer func() {
		if w.sol != nil {
			r.mu.Lock()
			r.res.SolverWall += w.sol.wall
			r.res.SolverCalls += w.sol.queries
			r.mu.Unlock()
			w.sol.close()
		}
	}()
	for {
		prefix, ok := r.pop()
		if !ok {
			return
		}
		if w.sol == nil || w.sol.dead || w.used >= reuseLimit {
			if w.sol != nil {
				r.mu.Lock()
				r.res.SolverWall += w.sol.wall
				r.res.SolverCalls += w.sol.queries
				r.mu.Unlock()
				w.sol.close()
			}
			logPath := ""
			if r.opts.LogDir != "" {
				logPath = filepath.Join(r.opts.LogDir, fmt.Sprintf("solver-%s-%d.smt2", r.harness, id))
			}
			s, err := newSolver(solverCVC5, r.opts.SolverTimeoutMs, logPath)
			if err != nil {
				r.mu.Lock()
				r.res.Inconclusive["cannot start solver: "+err.Error()]++
				r.stop = true
				r.mu.Unlock()
				r.cond.Broadcast()
				r.done()
				return
			}
			w.sol = s
			w.used = 0
		}
		w.used++
		r.runPath(w, prefix)
		r.done()
		r.mu.Lock()
		over := r.res.Paths >= r.opts.MaxPaths || (r.opts.Timeout > 0 && time.Since(r.t0) > r.opts.Timeout)
		if over && !r.stop && (len(r.stack) > 0 || r.active > 0) {
			r.stop = true
			r.res.Inconclusive[fmt.Sprintf("exploration budget reached (paths=%d, wall=%s) with %d prefixes pending", r.res.Paths, time.Since(r.t0).Round(time.Second), len(r.stack))]++
			r.cond.Broadcast()
		}
		r.mu.Unlock()
		if r.opts.Decisions != nil || r.opts.Single {
			r.mu.Lock()
			r.stop = true
			r.mu.Unlock()
			r.cond.Broadcast()
			return
		}
	}
}

func panicText(p interface{}) string {
	switch p := p.(type) {
	case targetPanic:
		return "panic: " + toString(p.v)
	case runtimePanic:
		return "panic: " + p.msg
	case runtime.Error:
		return "panic: " + p.Error()
	case string:
		return "panic: " + p
	case error:
		return "panic: " + p.Error()
	}
	return fmt.Sprintf("panic: %v", p)
}

func (r *Run) runPath(w *worker, prefix []int32) {
	pc := newPathCtx(r, w.sol, prefix)
	w.sol.send("(push 1)\n")
	i := &interpreter{
		prog:    r.ld.Prog,
		globals: make(map[*ssa.Global]*value),
		sizes:   &types.StdSizes{WordSize: 8, MaxAlign: 8},
		pc:      pc,
		ld:      r.ld,
		fninfo:  w.fninfoCache(),
		consts:  make(map[*ssa.Const]value),
		tacache: w.taCache(),
	}
	if r.opts.Trace {
		i.mode |= EnableTracing
	}
	i.runtimeErrorString = types.Typ[types.String]
	func() {
		defer func() {
			p := recover()
			if p == nil {
				return
			}
			switch p := p.(type) {
			case pathAbort:
				pc.status = p.status
				pc.statusMsg = p.msg
			case engineError:
				pc.status = "inconclusive"
				pc.statusMsg = p.msg
			case threadKill:
				pc.status = "inconclusive"
				pc.statusMsg = "thread kill escaped"
			case childPanic:
				pc.status = "panic"
				pc.statusMsg = panicText(p.p)
			default:
				pc.status = "panic"
				pc.statusMsg = panicText(p)
				if _, raw := p.(runtime.Error); raw {
					pc.statusMsg += " [raw engine runtime error]"
				}
			}
		}()
		defer func() {
			if i.sched != nil {
				i.sched.killAll()
			}
		}()
		call(i, nil, token.NoPos, r.ld.Main.Func("init"), nil)
		call(i, nil, token.NoPos, r.fn, nil)
	}()
	switch pc.status {
	case "panic":
		if !pc.allowPanic {
			site := pc.panicSite
			w.sol.send("(push 1)\n")
			pc.assertChecks++
			res := w.sol.checkSat()
			if res == "sat" {
				pc.violation("panic", "panic", site, pc.statusMsg, true, "")
			} else if res != "unsat" {
				pc.markInconclusive("solver " + res + " at panic model query")
			}
			w.sol.send("(pop 1)\n")
		}
	case "unwind":
		if pc.hangCheck {
			// candidate non-termination: confirmed (or not) by the native replay under a watchdog
			w.sol.send("(push 1)\n")
			pc.assertChecks++
			res := w.sol.checkSat()
			if res == "sat" {
				pc.violation("hang", "hang", pc.panicSite, "bound reached: "+pc.statusMsg, true, "")
				r.mu.Lock()
				r.hangs++
				if r.hangs >= 3 && !r.stop {
					// enough candidates: stop exploring (non-terminating code makes the path tree infinite)
					r.stop = true
					r.res.Inconclusive["exploration stopped after 3 candidate hangs"]++
					r.cond.Broadcast()
				}
				r.mu.Unlock()
			} else if res != "unsat" {
				pc.markInconclusive("solver " + res + " at hang model query")
			}
			w.sol.send("(pop 1)\n")
		} else {
			pc.markInconclusive("unwinding bound: " + pc.statusMsg)
		}
	case "inconclusive":
		msg := pc.statusMsg
		if k := strings.Index(msg, "\n"); k > 0 && !r.opts.Trace && r.opts.Decisions == nil {
			msg = msg[:k]
		}
		pc.markInconclusive(msg)
	}
	w.sol.send("(pop 1)\n")

	r.mu.Lock()
	defer r.mu.Unlock()
	res := r.res
	res.Paths++
	switch pc.status {
	case "ok":
		res.PathsOK++
	case "assume":
		res.Pruned++
	case "infeasible":
		res.Infeasible++
	case "panic":
		res.PanicPaths++
	}
	res.Instrs += pc.instrs
	res.FeasChecks += pc.feasChecks
	res.AssertChecks += pc.assertChecks
	if len(pc.trace) > res.MaxDepth {
		res.MaxDepth = len(pc.trace)
	}
	if pc.status != "assume" && pc.status != "infeasible" {
		for c := range pc.covers {
			res.Covers[c]++
		}
	}
	for n := range pc.notes {
		res.Notes[n]++
	}
	for f := range pc.touched {
		res.Touched[f.String()] = true
	}
	for _, m := range pc.inconclusive {
		res.Inconclusive[m]++
	}
	res.Violations = append(res.Violations, pc.violations...)
	if len(res.Samples) < 6 || (len(pc.violations) > 0 && len(res.Samples) < 12) {
		ps := PathSample{Decisions: append([]int32(nil), pc.trace...), Status: pc.status, Instrs: pc.instrs}
		if pc.statusMsg != "" {
			ps.Status += ": " + pc.statusMsg
		}
		for k, t := range pc.pcs {
			if k >= 8 {
				ps.PC = append(ps.PC, fmt.Sprintf("... %d more", len(pc.pcs)-k))
				break
			}
			if len(t) > 200 {
				t = t[:200] + "..."
			}
			ps.PC = append(ps.PC, t)
		}
		res.Samples = append(res.Samples, ps)
	}
	if r.opts.Decisions != nil || r.opts.Single {
		fmt.Fprintf(os.Stderr, "path status=%s msg=%s instrs=%d decisions=%v\n", pc.status, pc.statusMsg, pc.instrs, pc.trace)
		if pc.rawPanicStack != "" {
			fmt.Fprintln(os.Stderr, pc.rawPanicStack)
		}
		for _, t := range pc.pcs {
			fmt.Fprintln(os.Stderr, "  pc:", t)
		}
	}
}

var fninfoMu sync.Mutex

func (w *worker) fninfoCache() map[*ssa.Function]*fnInfo {
	// one cache per worker, shared across that worker's paths
	if w.fi == nil {
		w.fi = make(map[*ssa.Function]*fnInfo)
	}
	return w.fi
}

var reuseLimit = func() int {
	if v := os.Getenv("SYMGO_REUSE"); v != "" {
		n := 0
		fmt.Sscanf(v, "%d", &n)
		if n > 0 {
			return n
		}
	}
	return 300
}()
