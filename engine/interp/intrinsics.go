package interp

// Contract-level models of the standard-library functions that
// go-fed/activity calls (DESIGN §3.4).  Concrete arguments are evaluated
// with the real library; symbolic ones become SMT terms / uninterpreted
// functions.

import (
	"fmt"
	"go/token"
	"go/types"
	"math"
	"net/url"
	"regexp"
	"sort"
	"strconv"
	"strings"
	"time"
)

var intrinsics = map[string]intrinsicFn{}

// functions of non-target packages whose SSA bodies are interpreted as is
var interpretable = map[string]bool{
	"(*errors.errorString).Error": true,
}

func init() {
	for k, v := range map[string]intrinsicFn{
		"errors.New":                       inErrorsNew,
		"fmt.Errorf":                       inFmtErrorf,
		"fmt.Sprintf":                      inFmtSprintf,
		"fmt.Sprint":                       inFmtSprint,
		"fmt.Println":                      func(fr *frame, args []value) value { return tuple{0, iface{}} },
		"fmt.Printf":                       func(fr *frame, args []value) value { return tuple{0, iface{}} },
		"strings.TrimPrefix":               inTrimPrefix,
		"strings.HasPrefix":                inHasPrefix,
		"strings.HasSuffix":                inHasSuffix,
		"strings.Contains":                 inContains,
		"strings.Join":                     inJoin,
		"strings.ToLower":                  inToLower,
		"net/url.Parse":                    inURLParse,
		"(*net/url.URL).String":            inURLString,
		"encoding/json.Unmarshal":          inJSONUnmarshal,
		"encoding/json.Marshal":            inJSONMarshal,
		"io/ioutil.ReadAll":                inReadAll,
		"io.ReadAll":                       inReadAll,
		"context.Background":               inCtxBackground,
		"context.TODO":                     inCtxBackground,
		"(net/http.Header).Get":            inHeaderGet,
		"(net/http.Header).Set":            inHeaderSet,
		"(net/http.Header).Add":            inHeaderAdd,
		"(net/http.Header).Del":            inHeaderDel,
		"net/http.CanonicalHeaderKey":      func(fr *frame, args []value) value { return canonKey(args[0]) },
		"sort.Strings":                     inSortStrings,
		"strconv.ParseInt":                 inParseInt,
		"strconv.Itoa":                     inItoa,
		"math.Floor":                       inFloor,
		"regexp.MustCompile":               inRegexpMustCompile,
		"(*regexp.Regexp).FindStringSubmatch": inFindStringSubmatch,
		"time.Parse":                       inTimeParse,
		"time.Unix":                        inTimeUnix,
		"(time.Time).Format":               inTimeFormat,
		"(time.Time).UTC":                  inTimeUTC,
		"(time.Time).Before":               inTimeBefore,
		"(time.Time).After":                inTimeAfter,
		"(time.Time).Equal":                inTimeEqual,
		"(time.Time).IsZero":               inTimeIsZero,
		"(time.Duration).Hours":            inDurHours,
		"(time.Duration).Minutes":          inDurMinutes,
		"(time.Duration).Seconds":          inDurSeconds,
		"crypto/sha256.Sum256":             inSha256,
		"(*encoding/base64.Encoding).EncodeToString": inB64,
		"(*bytes.Buffer).WriteString":      inBufWriteString,
		"(*bytes.Buffer).String":           inBufString,
		"(*sync.Mutex).Lock":               inMutexLock,
		"(*sync.Mutex).Unlock":             inMutexUnlock,
		"(*sync.WaitGroup).Add":            inWGAdd,
		"(*sync.WaitGroup).Done":           inWGDone,
		"(*sync.WaitGroup).Wait":           inWGWait,
	} {
		intrinsics[k] = v
	}
}

// ---------------------------------------------------------------------
// errors / fmt

func (i *interpreter) newError(msg value) value {
	et := i.ld.namedType("errors", "errorString")
	cell := value(structure{msg})
	return iface{t: types.NewPointer(et), v: &cell}
}

func inErrorsNew(fr *frame, args []value) value { return fr.i.newError(args[0]) }

func inFmtErrorf(fr *frame, args []value) value {
	return fr.i.newError(sprintf(fr, args[0], args[1]))
}

func inFmtSprintf(fr *frame, args []value) value { return sprintf(fr, args[0], args[1]) }

func inFmtSprint(fr *frame, args []value) value {
	var acc value = ""
	list, _ := args[0].([]value)
	for _, a := range list {
		acc = strConcat(acc, fmtArg(fr, 'v', a))
	}
	return acc
}

func strConcat(a, b value) value {
	if x, ok := a.(*sym); ok && x.s == sAtom {
		a = atomStr(x)
	}
	if x, ok := b.(*sym); ok && x.s == sAtom {
		b = atomStr(x)
	}
	as, aok := a.(string)
	bs, bok := b.(string)
	if aok && bok {
		return as + bs
	}
	return symBinop(nil, token.ADD, types.Typ[types.String], a, b)
}

func sprintf(fr *frame, format value, argv value) value {
	f, ok := format.(string)
	if !ok {
		panic(engineErr("Sprintf with symbolic format"))
	}
	args, _ := argv.([]value)
	var acc value = ""
	ai := 0
	for i := 0; i < len(f); i++ {
		c := f[i]
		if c != '%' {
			j := i
			for j < len(f) && f[j] != '%' {
				j++
			}
			acc = strConcat(acc, f[i:j])
			i = j - 1
			continue
		}
		i++
		if i >= len(f) {
			acc = strConcat(acc, "%!(NOVERB)")
			break
		}
		// skip flags/width
		for i < len(f) && strings.ContainsRune("+-# 0123456789.", rune(f[i])) {
			i++
		}
		if i >= len(f) {
			break
		}
		verb := f[i]
		if verb == '%' {
			acc = strConcat(acc, "%")
			continue
		}
		if ai >= len(args) {
			acc = strConcat(acc, "%!"+string(verb)+"(MISSING)")
			continue
		}
		acc = strConcat(acc, fmtArg(fr, verb, args[ai]))
		ai++
	}
	return acc
}

func typeString(t types.Type) string {
	return types.TypeString(t, func(p *types.Package) string { return p.Name() })
}

// fmtArg formats one interface argument.
func fmtArg(fr *frame, verb byte, a value) value {
	itf, ok := a.(iface)
	if !ok {
		return "?"
	}
	if verb == 'T' {
		if itf.t == nil {
			return "<nil>"
		}
		return typeString(itf.t)
	}
	if itf.t == nil {
		if verb == 'v' {
			return "<nil>"
		}
		return "%!" + string(verb) + "(<nil>)"
	}
	// error / Stringer
	if verb == 'v' || verb == 's' || verb == 'q' {
		for _, mname := range []string{"Error", "String"} {
			if m := findMethod(fr.i, itf.t, mname); m != nil {
				if p, isPtr := itf.v.(*value); isPtr && p == nil {
					return "<nil>"
				}
				r := call(fr.i, fr, 0, m, []value{itf.v})
				if verb == 'q' {
					return quoteVal(r)
				}
				return r
			}
		}
	}
	switch x := itf.v.(type) {
	case string:
		if verb == 'q' {
			return strconv.Quote(x)
		}
		return x
	case *sym:
		switch x.s {
		case sAtom:
			if verb == 'q' {
				return quoteVal(atomStr(x))
			}
			return atomStr(x)
		case sStr:
			if verb == 'q' {
				return quoteVal(x)
			}
			return x
		case sBool:
			return &sym{s: sStr, e: "(ite " + x.e + " \"true\" \"false\")"}
		case sBV:
			if pc := fr.i.pc; pc.opaqueItoa {
				// decimal rendering as an uninterpreted function of the value (harness opted in:
				// its assertions do not depend on the digits)
				fn := fmt.Sprintf("itoa_%d", x.w)
				if !pc.ufDecl[fn] {
					pc.ufDecl[fn] = true
					pc.sol.send(fmt.Sprintf("(declare-fun %s ((_ BitVec %d)) String)\n", fn, x.w))
				}
				pc.note("decimal rendering of a symbolic integer modelled as an uninterpreted function (vfOpaqueItoa)")
				return &sym{s: sStr, e: "(" + fn + " " + x.e + ")"}
			}
			_, signed := bvInfo(itf.t)
			if signed {
				n := "(bv2nat " + x.e + ")"
				neg := "(bv2nat (bvneg " + x.e + "))"
				return &sym{s: sStr, e: "(ite (bvslt " + x.e + " " + bvConst(0, x.w) + ") (str.++ \"-\" (str.from_int " + neg + ")) (str.from_int " + n + "))"}
			}
			return &sym{s: sStr, e: "(str.from_int (bv2nat " + x.e + "))"}
		case sFP:
			fr.i.pc.note("fmt of symbolic float approximated by an uninterpreted function")
			fr.i.pc.declFmtFloat()
			return &sym{s: sStr, e: "(fmt_float " + x.e + ")"}
		}
	case bool:
		return strconv.FormatBool(x)
	case int, int8, int16, int32, int64:
		return strconv.FormatInt(asInt64(x), 10)
	case uint, uint8, uint16, uint32, uint64, uintptr:
		return strconv.FormatUint(asUint64(x), 10)
	case float64:
		if verb == 'f' {
			return strconv.FormatFloat(x, 'f', 6, 64)
		}
		return strconv.FormatFloat(x, 'g', -1, 64)
	case *value:
		if x == nil {
			return "<nil>"
		}
		return "&" + typeString(itf.t)
	}
	fr.i.pc.note("fmt of composite value approximated")
	return "<" + typeString(itf.t) + ">"
}

func (p *pathCtx) declFmtFloat() {
	if !p.ufDecl["fmt_float"] {
		p.ufDecl["fmt_float"] = true
		p.sol.send("(declare-fun fmt_float ((_ FloatingPoint 11 53)) String)\n")
	}
}

func quoteVal(v value) value {
	if s, ok := v.(string); ok {
		return strconv.Quote(s)
	}
	return strConcat(strConcat("\"", v), "\"")
}

func findMethod(i *interpreter, t types.Type, name string) value {
	ms := i.prog.MethodSets.MethodSet(t)
	for k := 0; k < ms.Len(); k++ {
		sel := ms.At(k)
		if sel.Obj().Name() == name {
			sig := sel.Type().(*types.Signature)
			if sig.Params().Len() == 0 && sig.Results().Len() == 1 {
				if b, ok := sig.Results().At(0).Type().Underlying().(*types.Basic); ok && b.Kind() == types.String {
					return i.prog.MethodValue(sel)
				}
			}
		}
	}
	return nil
}

// ---------------------------------------------------------------------
// strings

func strTerm(v value) string {
	if a, ok := v.(*sym); ok && a.s == sAtom {
		return atomStr(a).e
	}
	return symOf(v).e
}

func inTrimPrefix(fr *frame, args []value) value {
	urlStructTrigger(fr, args)
	s, sok := args[0].(string)
	p, pok := args[1].(string)
	if sok && pok {
		return strings.TrimPrefix(s, p)
	}
	st, pt := strTerm(args[0]), strTerm(args[1])
	return &sym{s: sStr, e: "(ite (str.prefixof " + pt + " " + st + ") (str.substr " + st + " (str.len " + pt + ") (- (str.len " + st + ") (str.len " + pt + "))) " + st + ")"}
}

func inHasPrefix(fr *frame, args []value) value {
	urlStructTrigger(fr, args)
	s, sok := args[0].(string)
	p, pok := args[1].(string)
	if sok && pok {
		return strings.HasPrefix(s, p)
	}
	return mkBool("(str.prefixof " + strTerm(args[1]) + " " + strTerm(args[0]) + ")")
}

func inHasSuffix(fr *frame, args []value) value {
	urlStructTrigger(fr, args)
	s, sok := args[0].(string)
	p, pok := args[1].(string)
	if sok && pok {
		return strings.HasSuffix(s, p)
	}
	return mkBool("(str.suffixof " + strTerm(args[1]) + " " + strTerm(args[0]) + ")")
}

func inContains(fr *frame, args []value) value {
	urlStructTrigger(fr, args)
	return containsImpl(fr, args)
}

func containsImpl(fr *frame, args []value) value {
	s, sok := args[0].(string)
	p, pok := args[1].(string)
	if sok && pok {
		return strings.Contains(s, p)
	}
	return mkBool("(str.contains " + strTerm(args[0]) + " " + strTerm(args[1]) + ")")
}

func inJoin(fr *frame, args []value) value {
	list, _ := args[0].([]value)
	var acc value = ""
	for i, e := range list {
		if i > 0 {
			acc = strConcat(acc, args[1])
		}
		acc = strConcat(acc, e)
	}
	return acc
}

func inToLower(fr *frame, args []value) value {
	if s, ok := args[0].(string); ok {
		return strings.ToLower(s)
	}
	panic(engineErr("strings.ToLower of symbolic string"))
}

func inSortStrings(fr *frame, args []value) value {
	x, _ := args[0].([]value)
	for _, e := range x {
		if _, ok := e.(string); !ok {
			// symbolic: order by solver-decided comparisons (insertion sort)
			for i := 1; i < len(x); i++ {
				for j := i; j > 0; j-- {
					lt := symBinop(fr, token.LSS, types.Typ[types.String], x[j], x[j-1])
					var b bool
					switch c := lt.(type) {
					case bool:
						b = c
					case *sym:
						b = fr.i.pc.decide(c.e, fr)
					}
					if !b {
						break
					}
					x[j], x[j-1] = x[j-1], x[j]
				}
			}
			return nil
		}
	}
	sort.Slice(x, func(i, j int) bool { return x[i].(string) < x[j].(string) })
	return nil
}

func inParseInt(fr *frame, args []value) value {
	s, ok := args[0].(string)
	if !ok {
		panic(pathAbort{"assume", "strconv.ParseInt on a symbolic string is outside the model"})
	}
	v, err := strconv.ParseInt(s, int(asInt64(args[1])), int(asInt64(args[2])))
	if err != nil {
		return tuple{int64(0), fr.i.newError(err.Error())}
	}
	return tuple{v, iface{}}
}

func inItoa(fr *frame, args []value) value {
	if _, ok := args[0].(*sym); ok {
		return fmtArg(fr, 'd', iface{t: types.Typ[types.Int], v: args[0]})
	}
	return strconv.Itoa(int(asInt64(args[0])))
}

func inFloor(fr *frame, args []value) value {
	if s, ok := args[0].(*sym); ok {
		return &sym{s: sFP, e: "(fp.roundToIntegral RTN " + s.e + ")"}
	}
	return math.Floor(args[0].(float64))
}

// ---------------------------------------------------------------------
// regexp (one call site: xsd:duration)

type nativeBox struct{ v interface{} }

func inRegexpMustCompile(fr *frame, args []value) value {
	s, ok := args[0].(string)
	if !ok {
		panic(engineErr("regexp.MustCompile of symbolic pattern"))
	}
	cell := value(nativeBox{regexp.MustCompile(s)})
	return &cell
}

func inFindStringSubmatch(fr *frame, args []value) value {
	re := (*args[0].(*value)).(nativeBox).v.(*regexp.Regexp)
	s, ok := args[1].(string)
	if !ok {
		// does the search find a match at all?  decided by the solver (str.in_re)
		lan, err := searchRegLan(re.String())
		if err != nil {
			panic(pathAbort{"assume", "regexp match on a symbolic string is outside the model (" + err.Error() + ")"})
		}
		fr.i.pc.note("regexp search on a symbolic string decided through str.in_re; submatch contents of a successful match are outside the model")
		if !fr.i.pc.decide("(str.in_re "+strTerm(args[1])+" "+lan+")", fr) {
			return []value(nil)
		}
		panic(pathAbort{"assume", "submatches of a regexp match on a symbolic string are outside the model"})
	}
	res := re.FindStringSubmatch(s)
	if res == nil {
		return []value(nil)
	}
	out := make([]value, len(res))
	for i, r := range res {
		out[i] = r
	}
	return out
}

// ---------------------------------------------------------------------
// net/url

const urlMarker = "\x00symgo-iri"

// url.URL fields: Scheme Opaque User Host Path RawPath OmitHost ForceQuery RawQuery Fragment RawFragment
const (
	ufScheme = iota
	ufOpaque
	ufUser
	ufHost
	ufPath
	ufRawPath
	ufOmitHost
	ufForceQuery
	ufRawQuery
	ufFragment
	ufRawFragment
)

func (i *interpreter) urlStruct() *types.Struct {
	return i.ld.namedType("net/url", "URL").Underlying().(*types.Struct)
}

func (i *interpreter) fieldIndex(st *types.Struct, name string) int {
	for k := 0; k < st.NumFields(); k++ {
		if st.Field(k).Name() == name {
			return k
		}
	}
	panic(engineErr("no field " + name))
}

func (i *interpreter) concreteURL(u *url.URL) value {
	st := i.urlStruct()
	s := zero(st).(structure)
	s[i.fieldIndex(st, "Scheme")] = u.Scheme
	s[i.fieldIndex(st, "Opaque")] = u.Opaque
	s[i.fieldIndex(st, "Host")] = u.Host
	s[i.fieldIndex(st, "Path")] = u.Path
	s[i.fieldIndex(st, "RawPath")] = u.RawPath
	s[i.fieldIndex(st, "ForceQuery")] = u.ForceQuery
	s[i.fieldIndex(st, "RawQuery")] = u.RawQuery
	s[i.fieldIndex(st, "Fragment")] = u.Fragment
	if u.User != nil {
		// userinfo kept inside Opaque-free form: not modelled separately
		i.pc.note("url userinfo dropped")
	}
	cell := value(s)
	return &cell
}

func (i *interpreter) nativeURL(s structure) (*url.URL, bool) {
	st := i.urlStruct()
	get := func(name string) (string, bool) {
		v, ok := s[i.fieldIndex(st, name)].(string)
		return v, ok
	}
	u := &url.URL{}
	var ok [7]bool
	u.Scheme, ok[0] = get("Scheme")
	u.Opaque, ok[1] = get("Opaque")
	u.Host, ok[2] = get("Host")
	u.Path, ok[3] = get("Path")
	u.RawPath, ok[4] = get("RawPath")
	u.RawQuery, ok[5] = get("RawQuery")
	u.Fragment, ok[6] = get("Fragment")
	for _, o := range ok {
		if !o {
			return nil, false
		}
	}
	if b, isb := s[i.fieldIndex(st, "ForceQuery")].(bool); isb {
		u.ForceQuery = b
	}
	return u, true
}

func (p *pathCtx) urlConst(i *interpreter, s string, u *url.URL) {
	if p.urlConsts[s] {
		return
	}
	p.urlConsts[s] = true
	lit := smtString(s)
	p.sol.send("(assert (and (url_ok " + lit + ") (= (url_scheme " + lit + ") " + smtString(u.Scheme) + ") (= (url_host " + lit + ") " + smtString(u.Host) + ") (= (url_norm " + lit + ") " + smtString(u.String()) + ")))\n")
}

func inURLParse(fr *frame, args []value) value {
	i := fr.i
	switch s := args[0].(type) {
	case string:
		u, err := url.Parse(s)
		if err != nil {
			return tuple{(*value)(nil), i.newError(err.Error())}
		}
		if u.Scheme != "" {
			i.pc.urlConst(i, s, u)
		}
		return tuple{i.concreteURL(u), iface{}}
	case *sym:
		pc := i.pc
		if s.s == sAtom {
			st := i.urlStruct()
			v := zero(st).(structure)
			v[i.fieldIndex(st, "Scheme")] = "https"
			v[i.fieldIndex(st, "Host")] = &sym{s: sAtom, e: "(iri_host " + s.e + ")", pc: pc}
			v[i.fieldIndex(st, "Opaque")] = urlMarker
			v[i.fieldIndex(st, "Path")] = s
			cell := value(v)
			return tuple{&cell, iface{}}
		}
		if !pc.decide("(url_ok "+s.e+")", fr) {
			return tuple{(*value)(nil), i.newError(strConcat("parse ", strConcat(quoteVal(s), ": invalid URL")))}
		}
		// light consistency axioms so that models replay against the real parser
		sch := "(url_scheme " + s.e + ")"
		_, schKnown := pc.constOf(sch)
		ax := "(or (= " + sch + " \"\") (and (str.prefixof (str.++ " + sch + " \":\") " + s.e + ")))"
		if !pc.known[ax] && !schKnown {
			pc.assertTerm(ax)
		}
		st := i.urlStruct()
		v := zero(st).(structure)
		if c, ok := pc.constOf(sch); ok {
			v[i.fieldIndex(st, "Scheme")] = c
		} else {
			v[i.fieldIndex(st, "Scheme")] = &sym{s: sStr, e: sch}
		}
		v[i.fieldIndex(st, "Host")] = &sym{s: sStr, e: "(url_host " + s.e + ")"}
		v[i.fieldIndex(st, "Opaque")] = urlMarker
		v[i.fieldIndex(st, "Path")] = &sym{s: sStr, e: "(url_norm " + s.e + ")"}
		// url_norm(s) = s is asserted for vfIRI strings; for other strings it is a free UF
		cell := value(v)
		return tuple{&cell, iface{}}
	}
	panic(engineErr("url.Parse arg"))
}

func inURLString(fr *frame, args []value) value {
	p := derefPtr(args[0], "(*url.URL).String")
	s := (*p).(structure)
	i := fr.i
	st := i.urlStruct()
	if op, _ := s[i.fieldIndex(st, "Opaque")].(string); op == urlMarker {
		path := s[i.fieldIndex(st, "Path")]
		if ps, ok := path.(*sym); ok && ps.s == sAtom {
			if h, ok := s[i.fieldIndex(st, "Host")].(*sym); !ok || h.e != "(iri_host "+ps.e+")" {
				panic(engineErr("symbolic URL with modified Host"))
			}
			return ps
		}
		// Host/Scheme must still be the parsed ones
		if ps, ok := path.(*sym); ok {
			inner := strings.TrimSuffix(strings.TrimPrefix(ps.e, "(url_norm "), ")")
			if h, ok := s[i.fieldIndex(st, "Host")].(*sym); !ok || h.e != "(url_host "+inner+")" {
				panic(engineErr("symbolic URL with modified Host"))
			}
			if pc := i.pc; pc.known["(= (url_norm "+inner+") "+inner+")"] {
				return &sym{s: sStr, e: inner}
			}
		}
		return path
	}
	u, ok := i.nativeURL(s)
	if !ok {
		panic(engineErr("(*url.URL).String on partially symbolic URL"))
	}
	return u.String()
}

// ---------------------------------------------------------------------
// encoding/json, io

func (i *interpreter) jsonMapType() types.Type {
	return types.NewMap(types.Typ[types.String], types.NewInterfaceType(nil, nil))
}

func inJSONUnmarshal(fr *frame, args []value) value {
	bl := asBlob(args[0])
	if bl == nil {
		panic(engineErr("json.Unmarshal of bytes that are not a JSON handle"))
	}
	if bl.garbled {
		return fr.i.newError("invalid character 'x' looking for beginning of value")
	}
	dst, ok := args[1].(iface)
	if !ok {
		panic(engineErr("json.Unmarshal dst"))
	}
	ptr, ok := dst.v.(*value)
	if !ok || ptr == nil {
		return fr.i.newError("json: Unmarshal(non-pointer)")
	}
	elem := mustDeref(dst.t)
	tree := deepCopy(bl.tree).(iface)
	switch elem.Underlying().(type) {
	case *types.Map:
		if tree.t == nil {
			*ptr = (*amap)(nil)
			return iface{}
		}
		m, ok := tree.v.(*amap)
		if !ok {
			return fr.i.newError("json: cannot unmarshal non-object into Go value of type map[string]interface {}")
		}
		*ptr = m
		return iface{}
	case *types.Interface:
		*ptr = tree
		return iface{}
	}
	panic(engineErr("json.Unmarshal into " + elem.String()))
}

func inJSONMarshal(fr *frame, args []value) value {
	t := deepCopy(args[0])
	return tuple{[]value{&blob{tree: t, render: renderTree(t)}}, iface{}}
}

func inReadAll(fr *frame, args []value) value {
	r, ok := args[0].(iface)
	if !ok || r.t == nil {
		panic(runtimePanic{"runtime error: invalid memory address or nil pointer dereference (ReadAll of nil reader)"})
	}
	if r.t.String() == "*bytes.Reader" {
		p := derefPtr(r.v, "ReadAll(*bytes.Reader)")
		return tuple{(*p).(structure)[0], iface{}}
	}
	ms := fr.i.prog.MethodSets.MethodSet(r.t)
	for k := 0; k < ms.Len(); k++ {
		if ms.At(k).Obj().Name() == "VfReadAll" {
			fn := fr.i.prog.MethodValue(ms.At(k))
			return call(fr.i, fr, 0, fn, []value{r.v})
		}
	}
	panic(engineErr("ReadAll of reader without VfReadAll: " + r.t.String()))
}

type ctxValue struct{ name string }

func inCtxBackground(fr *frame, args []value) value {
	ct := fr.i.ld.namedType("context", "backgroundCtx")
	return iface{t: ct, v: structure{structure{}}}
}

// ---------------------------------------------------------------------
// net/http.Header

func canonKey(k value) value {
	s, ok := k.(string)
	if !ok {
		panic(engineErr("symbolic header key"))
	}
	return canonicalMIMEHeaderKey(s)
}

func canonicalMIMEHeaderKey(s string) string {
	b := []byte(s)
	upper := true
	for i, c := range b {
		if upper && 'a' <= c && c <= 'z' {
			c -= 'a' - 'A'
		} else if !upper && 'A' <= c && c <= 'Z' {
			c += 'a' - 'A'
		}
		b[i] = c
		upper = c == '-'
	}
	return string(b)
}

func inHeaderGet(fr *frame, args []value) value {
	m, _ := args[0].(*amap)
	v, ok := m.lookup(fr, canonKey(args[1]))
	if !ok {
		return ""
	}
	l, _ := v.([]value)
	if len(l) == 0 {
		return ""
	}
	return l[0]
}

func inHeaderSet(fr *frame, args []value) value {
	m, _ := args[0].(*amap)
	if m == nil {
		panic(runtimePanic{"assignment to entry in nil map"})
	}
	m.insert(fr, canonKey(args[1]), []value{args[2]})
	return nil
}

func inHeaderAdd(fr *frame, args []value) value {
	m, _ := args[0].(*amap)
	if m == nil {
		panic(runtimePanic{"assignment to entry in nil map"})
	}
	k := canonKey(args[1])
	old, _ := m.lookup(fr, k)
	l, _ := old.([]value)
	m.insert(fr, k, append(append([]value(nil), l...), args[2]))
	return nil
}

func inHeaderDel(fr *frame, args []value) value {
	m, _ := args[0].(*amap)
	m.delete(fr, canonKey(args[1]))
	return nil
}

// ---------------------------------------------------------------------
// time

// time.Time is struct{wall uint64; ext int64; loc *Location}.  Concrete
// instants keep the native value boxed behind loc; symbolic instants have
// loc == nil, ext = instant term, wall = zone term (0 = UTC).

func (i *interpreter) boxTime(t time.Time) value {
	cell := value(nativeBox{t})
	return structure{uint64(0), int64(0), &cell}
}

func unboxTime(v value) (time.Time, bool) {
	s := v.(structure)
	p, _ := s[2].(*value)
	if p == nil {
		if isSym(s[0]) || isSym(s[1]) {
			return time.Time{}, false
		}
		if asInt64(s[1]) == 0 && asUint64Any(s[0]) == 0 {
			return time.Time{}, true // zero Time
		}
		return time.Time{}, false
	}
	return (*p).(nativeBox).v.(time.Time), true
}

func (p *pathCtx) declTimeUFs() {
	if !p.ufDecl["time"] {
		p.ufDecl["time"] = true
		p.sol.send("(declare-fun time_fmt ((_ BitVec 64) (_ BitVec 64) String) String)\n")
		p.sol.send("(declare-fun time_parse_ok (String String) Bool)\n")
		p.sol.send("(declare-fun time_parse_inst (String String) (_ BitVec 64))\n")
		p.sol.send("(declare-fun time_parse_zone (String String) (_ BitVec 64))\n")
	}
}

func vfTime(fr *frame, args []value) value {
	pc := fr.i.pc
	tag := argString(args[0], "tag")
	inst := pc.fresh(tag+".instant", "int")
	zone := pc.fresh(tag+".zone", "int")
	// unix seconds in a sane window; zone offset in minutes
	pc.assertTerm("(bvsle " + bvConst(0, 64) + " " + inst.e + ")")
	pc.assertTerm("(bvsle " + inst.e + " " + bvConst(4102444800, 64) + ")")
	pc.assertTerm("(bvsle " + bvConst(uint64(^uint64(0)-719), 64) + " " + zone.e + ")")
	pc.assertTerm("(bvsle " + zone.e + " " + bvConst(720, 64) + ")")
	return structure{zone, inst, (*value)(nil)}
}

func timeTerms(v value) (inst, zone string) {
	s := v.(structure)
	return symOf(s[1]).e, symOf(widenU(s[0])).e
}

func widenU(v value) value {
	if u, ok := v.(uint64); ok {
		return int64(u)
	}
	return v
}

func vfTimeEq(fr *frame, args []value) value {
	a, aok := unboxTime(args[0])
	b, bok := unboxTime(args[1])
	if aok && bok {
		return a.Equal(b)
	}
	if aok != bok {
		return false
	}
	ai, _ := timeTerms(args[0])
	bi, _ := timeTerms(args[1])
	return mkBool("(= " + ai + " " + bi + ")")
}

func timeFormat(fr *frame, t value, layout value) value {
	l, ok := layout.(string)
	if !ok {
		panic(engineErr("symbolic time layout"))
	}
	if nt, ok := unboxTime(t); ok {
		return nt.Format(l)
	}
	fr.i.pc.declTimeUFs()
	inst, zone := timeTerms(t)
	return &sym{s: sStr, e: "(time_fmt " + inst + " " + zone + " " + smtString(l) + ")"}
}

func inTimeFormat(fr *frame, args []value) value { return timeFormat(fr, args[0], args[1]) }
func vfFormatTime(fr *frame, args []value) value { return timeFormat(fr, args[0], args[1]) }

func inTimeUTC(fr *frame, args []value) value {
	if nt, ok := unboxTime(args[0]); ok {
		return fr.i.boxTime(nt.UTC())
	}
	s := args[0].(structure)
	return structure{uint64(0), s[1], (*value)(nil)}
}

func timeCmp(fr *frame, args []value, op string, nat func(a, b time.Time) bool) value {
	a, aok := unboxTime(args[0])
	b, bok := unboxTime(args[1])
	if aok && bok {
		return nat(a, b)
	}
	if aok != bok {
		panic(engineErr("comparison of concrete and symbolic time"))
	}
	ai, _ := timeTerms(args[0])
	bi, _ := timeTerms(args[1])
	return mkBool("(" + op + " " + ai + " " + bi + ")")
}

func inTimeBefore(fr *frame, args []value) value {
	return timeCmp(fr, args, "bvslt", func(a, b time.Time) bool { return a.Before(b) })
}
func inTimeAfter(fr *frame, args []value) value {
	return timeCmp(fr, args, "bvsgt", func(a, b time.Time) bool { return a.After(b) })
}
func inTimeEqual(fr *frame, args []value) value {
	return timeCmp(fr, args, "=", func(a, b time.Time) bool { return a.Equal(b) })
}
func inTimeIsZero(fr *frame, args []value) value {
	if nt, ok := unboxTime(args[0]); ok {
		return nt.IsZero()
	}
	return false
}

func inTimeUnix(fr *frame, args []value) value {
	if isSym(args[0]) || isSym(args[1]) {
		panic(engineErr("time.Unix of symbolic arguments"))
	}
	return fr.i.boxTime(time.Unix(asInt64(args[0]), asInt64(args[1])))
}

func inTimeParse(fr *frame, args []value) value {
	layout, ok := args[0].(string)
	if !ok {
		panic(engineErr("symbolic time layout"))
	}
	zeroT := zero(fr.i.ld.namedType("time", "Time"))
	switch s := args[1].(type) {
	case string:
		t, err := time.Parse(layout, s)
		if err != nil {
			return tuple{zeroT, fr.i.newError(err.Error())}
		}
		return tuple{fr.i.boxTime(t), iface{}}
	case *sym:
		pc := fr.i.pc
		pc.declTimeUFs()
		l := smtString(layout)
		if !pc.decide("(time_parse_ok "+l+" "+s.e+")", fr) {
			return tuple{zeroT, fr.i.newError(strConcat("parsing time ", quoteVal(s)))}
		}
		inst := &sym{s: sBV, w: 64, e: "(time_parse_inst " + l + " " + s.e + ")"}
		zone := &sym{s: sBV, w: 64, e: "(time_parse_zone " + l + " " + s.e + ")"}
		// round trip contract of the stdlib for the same layout:
		// Format(Parse(layout, s), layout) == s is NOT assumed (it does not hold in general).
		return tuple{structure{zone, inst, (*value)(nil)}, iface{}}
	}
	panic(engineErr("time.Parse arg"))
}

func durFloat(fr *frame, d value, perNs float64) value {
	if s, ok := d.(*sym); ok {
		// exact for |d| < 2^53 ns; Go computes hours as d/Hour + (d%Hour)/3.6e12
		f := "((_ to_fp 11 53) RNE " + s.e + ")"
		return &sym{s: sFP, e: "(fp.div RNE " + f + " " + symOf(perNs).e + ")"}
	}
	dd := time.Duration(asInt64(d))
	switch perNs {
	case float64(time.Hour):
		return dd.Hours()
	case float64(time.Minute):
		return dd.Minutes()
	}
	return dd.Seconds()
}

func inDurHours(fr *frame, args []value) value   { return durFloat(fr, args[0], float64(time.Hour)) }
func inDurMinutes(fr *frame, args []value) value { return durFloat(fr, args[0], float64(time.Minute)) }
func inDurSeconds(fr *frame, args []value) value { return durFloat(fr, args[0], float64(time.Second)) }

// ---------------------------------------------------------------------
// crypto / base64 over byte handles

type digestMark struct{ render string }

func inSha256(fr *frame, args []value) value {
	bl := asBlob(args[0])
	if bl == nil {
		panic(engineErr("sha256.Sum256 of bytes that are not a handle"))
	}
	a := make(array, 32)
	a[0] = digestMark{bl.render}
	for i := 1; i < 32; i++ {
		a[i] = uint8(0)
	}
	return a
}

func inB64(fr *frame, args []value) value {
	src, _ := args[1].([]value)
	if len(src) == 32 {
		if d, ok := src[0].(digestMark); ok {
			return "b64(sha256(" + d.render + "))"
		}
	}
	panic(engineErr("base64 of bytes that are not a digest handle"))
}

// ---------------------------------------------------------------------
// bytes.Buffer used as a string builder: the accumulated text is kept as one
// (possibly symbolic) string in the buf field.

func bufText(p *value) value {
	s := (*p).(structure)
	if l, ok := s[0].([]value); ok && len(l) == 1 {
		return l[0]
	}
	return ""
}

func inBufWriteString(fr *frame, args []value) value {
	p := derefPtr(args[0], "Buffer.WriteString")
	s := (*p).(structure)
	s[0] = []value{strConcat(bufText(p), args[1])}
	n := callBuiltinLen(args[1])
	return tuple{n, iface{}}
}

func callBuiltinLen(v value) value {
	switch x := v.(type) {
	case string:
		return len(x)
	case *sym:
		return symLen(x)
	}
	return 0
}

func inBufString(fr *frame, args []value) value {
	p, _ := args[0].(*value)
	if p == nil {
		return "<nil>"
	}
	return bufText(p)
}

// ---------------------------------------------------------------------
// sync (Mode A: single simulated thread at a time)

func inMutexLock(fr *frame, args []value) value {
	if fr.i.sched != nil {
		return schedMutexLock(fr, args)
	}
	p := derefPtr(args[0], "Mutex.Lock")
	s := (*p).(structure)
	if asInt64(s[0]) != 0 {
		panic(engineErr("sync.Mutex.Lock would block (run-to-completion threads): self-deadlock"))
	}
	s[0] = int32(1)
	return nil
}

func inMutexUnlock(fr *frame, args []value) value {
	if fr.i.sched != nil {
		return schedMutexUnlock(fr, args)
	}
	p := derefPtr(args[0], "Mutex.Unlock")
	s := (*p).(structure)
	if asInt64(s[0]) == 0 {
		panic(runtimePanic{"fatal error: sync: unlock of unlocked mutex"})
	}
	s[0] = int32(0)
	return nil
}

func inWGAdd(fr *frame, args []value) value {
	if fr.i.sched != nil {
		return schedWGAdd(fr, args)
	}
	return nil
}
func inWGDone(fr *frame, args []value) value {
	if fr.i.sched != nil {
		return schedWGAdd(fr, []value{args[0], int(-1)})
	}
	return nil
}
func inWGWait(fr *frame, args []value) value {
	if fr.i.sched != nil {
		return schedWGWait(fr, args)
	}
	return nil
}


var _ = fmt.Sprintf

// ---------------------------------------------------------------------
// net/http client-side request construction (pub/transport.go)

func init() {
	intrinsics["net/http.NewRequest"] = inHTTPNewRequest
	intrinsics["(*net/http.Request).WithContext"] = inHTTPWithContext
	intrinsics["(*net/http.Request).Context"] = inHTTPContext
	intrinsics["bytes.NewReader"] = inBytesNewReader
}

func (i *interpreter) httpRequestStruct() *types.Struct {
	return i.ld.namedType("net/http", "Request").Underlying().(*types.Struct)
}

// http.NewRequest(method, url string, body io.Reader) (*http.Request, error): method and URL as
// documented (invalid URL -> error); Header is a fresh empty map; Body is the reader given.
func inHTTPNewRequest(fr *frame, args []value) value {
	i := fr.i
	st := i.httpRequestStruct()
	pu := inURLParse(fr, []value{args[1]}).(tuple)
	if e, ok := pu[1].(iface); ok && e.t != nil {
		return tuple{(*value)(nil), pu[1]}
	}
	r := zero(st).(structure)
	r[i.fieldIndex(st, "Method")] = args[0]
	r[i.fieldIndex(st, "URL")] = pu[0]
	r[i.fieldIndex(st, "Proto")] = "HTTP/1.1"
	hk := i.fieldIndex(st, "Header")
	r[hk] = newAmap(st.Field(hk).Type().Underlying().(*types.Map))
	if b, ok := args[2].(iface); ok && b.t != nil {
		r[i.fieldIndex(st, "Body")] = b
	}
	u := (*pu[0].(*value)).(structure)
	r[i.fieldIndex(st, "Host")] = u[i.fieldIndex(i.urlStruct(), "Host")]
	cell := value(r)
	return tuple{&cell, iface{}}
}

// (*http.Request).WithContext: shallow copy carrying the context.
func inHTTPWithContext(fr *frame, args []value) value {
	p := derefPtr(args[0], "(*http.Request).WithContext")
	if c, ok := args[1].(iface); !ok || c.t == nil {
		panic(targetPanic{iface{t: types.Typ[types.String], v: "nil context"}})
	}
	st := fr.i.httpRequestStruct()
	r := append(structure(nil), (*p).(structure)...)
	r[fr.i.fieldIndex(st, "ctx")] = args[1]
	cell := value(r)
	return &cell
}

func inHTTPContext(fr *frame, args []value) value {
	p := derefPtr(args[0], "(*http.Request).Context")
	st := fr.i.httpRequestStruct()
	c := (*p).(structure)[fr.i.fieldIndex(st, "ctx")]
	if ci, ok := c.(iface); ok && ci.t != nil {
		return c
	}
	return inCtxBackground(fr, nil)
}

// bytes.NewReader(b): a reader over the byte handle b.
func inBytesNewReader(fr *frame, args []value) value {
	cell := value(structure{args[0]})
	return &cell
}

// (*url.URL).Hostname: the host without port.  For an abstract IRI it is an uninterpreted,
// idempotent function of the host (so "host with a port" is a model in which they differ).
func init() { intrinsics["(*net/url.URL).Hostname"] = inURLHostname }

func inURLHostname(fr *frame, args []value) value {
	p := derefPtr(args[0], "(*url.URL).Hostname")
	st := fr.i.urlStruct()
	h := (*p).(structure)[fr.i.fieldIndex(st, "Host")]
	switch x := h.(type) {
	case string:
		u := url.URL{Host: x}
		return u.Hostname()
	case *sym:
		pc := fr.i.pc
		if x.s != sAtom {
			panic(engineErr("Hostname of a URL whose host is a symbolic string"))
		}
		if !pc.ufDecl["host_name"] {
			pc.ufDecl["host_name"] = true
			pc.sol.send("(declare-fun host_name (Atom) Atom)\n")
		}
		t := "(host_name " + x.e + ")"
		ax := "(= (host_name " + t + ") " + t + ")"
		if !pc.known[ax] {
			pc.assertTerm(ax)
		}
		pc.hostTerms = append(pc.hostTerms, x.e)
		return &sym{s: sAtom, e: t, pc: pc}
	}
	panic(engineErr("Hostname: unexpected host value"))
}

// ---------------------------------------------------------------------
// streaming SHA-256 (sha256.New / Write / Sum / Reset) and sync.Pool: the hash state is the list of
// byte handles written so far; its digest is the same uninterpreted function of that list as
// sha256.Sum256 (a single write of b gives exactly Sum256(b)).  sync.Pool.Get returns a pooled
// item or a fresh one - which, is a decision of the path.

type shaState struct{ writes []string }

func init() {
	intrinsics["crypto/sha256.New"] = func(fr *frame, args []value) value {
		dt := fr.i.ld.namedType("crypto/sha256", "digest")
		cell := value(nativeBox{&shaState{}})
		return iface{t: types.NewPointer(dt), v: &cell}
	}
	st := func(v value) *shaState {
		p, ok := v.(*value)
		if !ok || p == nil {
			panic(runtimePanic{"runtime error: invalid memory address or nil pointer dereference (hash)"})
		}
		return (*p).(nativeBox).v.(*shaState)
	}
	intrinsics["(*crypto/sha256.digest).Write"] = func(fr *frame, args []value) value {
		s := st(args[0])
		bl := asBlob(args[1])
		if bl == nil {
			if l, _ := args[1].([]value); len(l) == 0 {
				return tuple{0, iface{}}
			}
			panic(engineErr("hash.Write of bytes that are not a handle"))
		}
		s.writes = append(s.writes, bl.render)
		return tuple{1, iface{}}
	}
	intrinsics["(*crypto/sha256.digest).Reset"] = func(fr *frame, args []value) value {
		st(args[0]).writes = nil
		return nil
	}
	intrinsics["(*crypto/sha256.digest).Sum"] = func(fr *frame, args []value) value {
		s := st(args[0])
		a := make([]value, 32)
		a[0] = digestMark{strings.Join(s.writes, " ++ ")}
		for i := 1; i < 32; i++ {
			a[i] = uint8(0)
		}
		if pre, _ := args[1].([]value); len(pre) > 0 {
			panic(engineErr("hash.Sum appended to a non-empty slice"))
		}
		return a
	}
	intrinsics["(*sync.Pool).Get"] = func(fr *frame, args []value) value {
		p := derefPtr(args[0], "(*sync.Pool).Get")
		pc := fr.i.pc
		if pc.pools == nil {
			pc.pools = map[*value][]value{}
		}
		if items := pc.pools[p]; len(items) > 0 {
			key := pc.tapeKey("choose:pool.reuse")
			c := pc.decideN(2, func(int) string { return "" }, false)
			pc.tape[key] = c
			if c == 0 {
				it := items[len(items)-1]
				pc.pools[p] = items[:len(items)-1]
				return it
			}
		}
		stt := fr.i.ld.namedType("sync", "Pool").Underlying().(*types.Struct)
		nf := (*p).(structure)[fr.i.fieldIndex(stt, "New")]
		if nf == nil {
			return iface{}
		}
		if c, ok := nf.(*closure); ok && c == nil {
			return iface{}
		}
		return call(fr.i, fr, token.NoPos, nf, nil)
	}
	intrinsics["(*sync.Pool).Put"] = func(fr *frame, args []value) value {
		p := derefPtr(args[0], "(*sync.Pool).Put")
		pc := fr.i.pc
		if pc.pools == nil {
			pc.pools = map[*value][]value{}
		}
		pc.pools[p] = append(pc.pools[p], args[1])
		return nil
	}
}

// sort.SearchStrings(a, x): the library's own binary search, with the comparisons on a symbolic x
// decided by the solver (so an unsorted a misbehaves exactly as it does natively).
func init() {
	intrinsics["sort.SearchStrings"] = func(fr *frame, args []value) value {
		a, _ := args[0].([]value)
		lo, hi := 0, len(a)
		for lo < hi {
			h := int(uint(lo+hi) >> 1)
			// !(a[h] >= x)  <=>  a[h] < x
			lt := symBinop(fr, token.LSS, types.Typ[types.String], a[h], args[1])
			var b bool
			switch c := lt.(type) {
			case bool:
				b = c
			case *sym:
				b = fr.i.pc.decide(c.e, fr)
			}
			if b {
				lo = h + 1
			} else {
				hi = h
			}
		}
		return lo
	}
}

// urlStructTrigger: string analysis applied to the text of an abstract IRI/host switches the URL
// text structure axioms on (see enableURLStructure).
func urlStructTrigger(fr *frame, args []value) {
	for _, a := range args {
		if x, ok := a.(*sym); ok && (x.s == sAtom || strings.Contains(x.e, "(atom_str ")) {
			fr.i.pc.enableURLStructure()
			return
		}
	}
}
