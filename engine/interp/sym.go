package interp

// Symbolic scalar values and their SMT-LIB2 term construction.

import (
	"fmt"
	"go/token"
	"go/types"
	"math"
	"strings"
)

type ssort uint8

const (
	sBool ssort = iota
	sBV
	sFP
	sStr
	sAtom // a Go string that is only ever compared: element of the uninterpreted sort Atom (IRIs, hosts)
)

// sym is a symbolic scalar: an SMT term of sort Bool, (_ BitVec w),
// Float64 or String.  ie, when non-empty, is an equivalent term of sort
// Int for bit-vector values known to be small and non-negative
// (string lengths); it lets comparisons stay inside the string/LIA
// theories instead of going through int2bv.
type sym struct {
	s  ssort
	w  int
	e  string
	ie string
	pc *pathCtx // set for atoms (needed to intern string literals they are compared with)
}

func isAtom(v value) bool {
	s, ok := v.(*sym)
	return ok && s.s == sAtom
}

// atomStr converts an atom to a String-sorted term (formatting, concatenation).
func atomStr(a *sym) *sym {
	pc := a.pc
	pc.note("an opaque IRI/host atom was converted to text (uninterpreted atom_str)")
	if !pc.atomStrUsed {
		pc.atomStrUsed = true
		for _, l := range pc.litOrder {
			pc.sol.send("(assert (= (atom_str " + pc.lits[l] + ") " + smtString(l) + "))\n")
		}
	}
	if !pc.atomStrSeen[a.e] {
		if pc.atomStrSeen == nil {
			pc.atomStrSeen = map[string]bool{}
		}
		pc.atomStrSeen[a.e] = true
		pc.atomStrTerms = append(pc.atomStrTerms, a.e)
		if pc.urlStruct {
			pc.structureAtom(a.e)
		}
	}
	return &sym{s: sStr, e: "(atom_str " + a.e + ")"}
}

// URL text structure, switched on the first time the code under test ANALYSES the text of an
// abstract IRI or host (HasPrefix/HasSuffix/Contains/TrimPrefix on it): from then on the text of an
// IRI is "https://" ++ text(host) ++ "/" ++ path, a host is name[:port], and texts are injective, so
// that a model is a set of real URLs the native replay can use verbatim.
const reHostText = `(re.++ (re.+ (re.union (re.range "a" "z") (re.range "0" "9") (str.to_re "."))) (re.opt (re.++ (str.to_re ":") ((_ re.loop 1 4) (re.range "1" "9")))))`
const rePathText = `(re.* (re.union (re.range "a" "z") (re.range "0" "9")))`

func (p *pathCtx) enableURLStructure() {
	if p.urlStruct {
		return
	}
	p.urlStruct = true
	p.note("URL text structure axioms enabled (the code under test analysed the text of an abstract IRI)")
	p.sol.send("(declare-fun iri_path (Atom) String)\n(declare-fun str_atom (String) Atom)\n")
	for _, t := range append([]string(nil), p.atomStrTerms...) {
		p.structureAtom(t)
	}
}

func (p *pathCtx) structureAtom(t string) {
	if p.structDone == nil {
		p.structDone = map[string]bool{}
	}
	if p.structDone[t] || strings.HasPrefix(t, "|lit!") {
		return
	}
	p.structDone[t] = true
	p.sol.send("(assert (= (str_atom (atom_str " + t + ")) " + t + "))\n")
	if strings.HasPrefix(t, "(iri_host ") || strings.HasPrefix(t, "(host_name ") {
		p.sol.send("(assert (str.in_re (atom_str " + t + ") " + reHostText + "))\n")
		return
	}
	h := "(iri_host " + t + ")"
	p.sol.send("(assert (= (atom_str " + t + ") (str.++ \"https://\" (atom_str " + h + ") \"/\" (iri_path " + t + "))))\n")
	p.sol.send("(assert (str.in_re (iri_path " + t + ") " + rePathText + "))\n")
	if !p.atomStrSeen[h] {
		p.atomStrSeen[h] = true
		p.atomStrTerms = append(p.atomStrTerms, h)
	}
	p.structureAtom(h)
}

// atomBinop: operations on strings of which at least one is an atom.
func atomBinop(op token.Token, x, y value) value {
	ax, xa := x.(*sym)
	ay, ya := y.(*sym)
	xa = xa && ax.s == sAtom
	ya = ya && ay.s == sAtom
	var pc *pathCtx
	if xa {
		pc = ax.pc
	} else {
		pc = ay.pc
	}
	if op == token.EQL || op == token.NEQ {
		var l, r string
		switch {
		case xa && ya:
			l, r = ax.e, ay.e
		case xa:
			if cs, ok := y.(string); ok {
				l, r = ax.e, pc.litAtom(cs)
			} else {
				return symBinopStr(op, atomStr(ax), symOf(y))
			}
		default:
			if cs, ok := x.(string); ok {
				l, r = pc.litAtom(cs), ay.e
			} else {
				return symBinopStr(op, symOf(x), atomStr(ay))
			}
		}
		if l == r {
			return op == token.EQL
		}
		if op == token.EQL {
			return mkBool("(= " + l + " " + r + ")")
		}
		return mkBool("(not (= " + l + " " + r + "))")
	}
	// anything else works on the text
	var sx, sy value = x, y
	if xa {
		sx = atomStr(ax)
	}
	if ya {
		sy = atomStr(ay)
	}
	return symBinopStr(op, symOf(sx), symOf(sy))
}

func symBinopStr(op token.Token, a, b *sym) value {
	return symBinop(nil, op, types.Typ[types.String], a, b)
}

func (s *sym) String() string { return "sym(" + s.e + ")" }

func isSym(v value) bool { _, ok := v.(*sym); return ok }

// bvInfo returns the width and signedness of an integer type.
func bvInfo(t types.Type) (int, bool) {
	b, ok := t.Underlying().(*types.Basic)
	if !ok {
		panic(engineErr("bvInfo of non-basic type " + t.String()))
	}
	switch b.Kind() {
	case types.Int, types.Int64, types.UntypedInt:
		return 64, true
	case types.Int8:
		return 8, true
	case types.Int16:
		return 16, true
	case types.Int32, types.UntypedRune:
		return 32, true
	case types.Uint, types.Uint64, types.Uintptr:
		return 64, false
	case types.Uint8:
		return 8, false
	case types.Uint16:
		return 16, false
	case types.Uint32:
		return 32, false
	}
	panic(engineErr("bvInfo of " + t.String()))
}

func smtString(s string) string {
	var b strings.Builder
	b.WriteByte('"')
	for i := 0; i < len(s); i++ {
		c := s[i]
		switch {
		case c == '"':
			b.WriteString(`""`)
		case c == '\\':
			b.WriteString(`\u{5c}`)
		case c >= 0x20 && c < 0x7f:
			b.WriteByte(c)
		default:
			fmt.Fprintf(&b, `\u{%x}`, c)
		}
	}
	b.WriteByte('"')
	return b.String()
}

func bvConst(v uint64, w int) string {
	if w < 64 {
		v &= (uint64(1) << uint(w)) - 1
	}
	return fmt.Sprintf("(_ bv%d %d)", v, w)
}

func intConst(v int64) string {
	if v < 0 {
		return fmt.Sprintf("(- %d)", -v)
	}
	return fmt.Sprintf("%d", v)
}

// symOf lifts a concrete scalar to a sym (constant term).
func symOf(v value) *sym {
	switch x := v.(type) {
	case *sym:
		return x
	case bool:
		if x {
			return &sym{s: sBool, e: "true"}
		}
		return &sym{s: sBool, e: "false"}
	case string:
		return &sym{s: sStr, e: smtString(x)}
	case float64:
		return &sym{s: sFP, e: fmt.Sprintf("((_ to_fp 11 53) #x%016x)", math.Float64bits(x))}
	case float32:
		return &sym{s: sFP, e: fmt.Sprintf("((_ to_fp 11 53) #x%016x)", math.Float64bits(float64(x)))}
	case int:
		return bvc(uint64(x), 64, int64(x))
	case int8:
		return bvc(uint64(x), 8, int64(x))
	case int16:
		return bvc(uint64(x), 16, int64(x))
	case int32:
		return bvc(uint64(x), 32, int64(x))
	case int64:
		return bvc(uint64(x), 64, x)
	case uint:
		return bvc(uint64(x), 64, int64(x))
	case uint8:
		return bvc(uint64(x), 8, int64(x))
	case uint16:
		return bvc(uint64(x), 16, int64(x))
	case uint32:
		return bvc(uint64(x), 32, int64(x))
	case uint64:
		return bvc(x, 64, int64(x))
	case uintptr:
		return bvc(uint64(x), 64, int64(x))
	}
	panic(engineErr(fmt.Sprintf("symOf: cannot lift %T", v)))
}

func bvc(bits uint64, w int, iv int64) *sym {
	s := &sym{s: sBV, w: w, e: bvConst(bits, w)}
	if iv >= 0 && iv < (1<<40) {
		s.ie = intConst(iv)
	}
	return s
}

func mkBool(e string) value {
	switch e {
	case "true":
		return true
	case "false":
		return false
	}
	return &sym{s: sBool, e: e}
}

func smtNot(e string) string {
	if e == "true" {
		return "false"
	}
	if e == "false" {
		return "true"
	}
	if strings.HasPrefix(e, "(not ") && balancedTail(e[5:len(e)-1]) {
		return e[5 : len(e)-1]
	}
	return "(not " + e + ")"
}

// balancedTail reports whether s is a single balanced s-expression.
func balancedTail(s string) bool {
	depth := 0
	inStr := false
	for i := 0; i < len(s); i++ {
		c := s[i]
		if inStr {
			if c == '"' {
				inStr = false
			}
			continue
		}
		switch c {
		case '"':
			inStr = true
		case '(':
			depth++
		case ')':
			depth--
			if depth < 0 {
				return false
			}
			if depth == 0 && i != len(s)-1 {
				return false
			}
		case ' ':
			if depth == 0 {
				return false
			}
		}
	}
	return depth == 0
}

func smtAnd(parts []string) string {
	var out []string
	for _, p := range parts {
		if p == "true" {
			continue
		}
		if p == "false" {
			return "false"
		}
		out = append(out, p)
	}
	switch len(out) {
	case 0:
		return "true"
	case 1:
		return out[0]
	}
	return "(and " + strings.Join(out, " ") + ")"
}

func smtOr(parts []string) string {
	var out []string
	for _, p := range parts {
		if p == "false" {
			continue
		}
		if p == "true" {
			return "true"
		}
		out = append(out, p)
	}
	switch len(out) {
	case 0:
		return "false"
	case 1:
		return out[0]
	}
	return "(or " + strings.Join(out, " ") + ")"
}

// symBinop implements binop when at least one operand is symbolic.
// t is the static type of the left operand.
func symBinop(fr *frame, op token.Token, t types.Type, x, y value) value {
	// shifts: right operand has its own type
	if op == token.SHL || op == token.SHR {
		return symShift(op, t, x, y)
	}
	if isAtom(x) || isAtom(y) {
		return atomBinop(op, x, y)
	}
	a, b := symOf(x), symOf(y)
	if a.s != b.s {
		panic(engineErr(fmt.Sprintf("symBinop: sort mismatch %v %s %v", a, op, b)))
	}
	switch a.s {
	case sBool:
		switch op {
		case token.EQL:
			return mkBool("(= " + a.e + " " + b.e + ")")
		case token.NEQ:
			return mkBool("(xor " + a.e + " " + b.e + ")")
		case token.AND, token.LAND:
			return mkBool(smtAnd([]string{a.e, b.e}))
		case token.OR, token.LOR:
			return mkBool(smtOr([]string{a.e, b.e}))
		}
	case sStr:
		switch op {
		case token.ADD:
			if a.e == `""` {
				return b
			}
			if b.e == `""` {
				return a
			}
			return &sym{s: sStr, e: "(str.++ " + a.e + " " + b.e + ")"}
		case token.EQL:
			if a.e == b.e {
				return true
			}
			return mkBool("(= " + a.e + " " + b.e + ")")
		case token.NEQ:
			if a.e == b.e {
				return false
			}
			return mkBool("(not (= " + a.e + " " + b.e + "))")
		case token.LSS:
			return mkBool("(str.< " + a.e + " " + b.e + ")")
		case token.LEQ:
			return mkBool("(str.<= " + a.e + " " + b.e + ")")
		case token.GTR:
			return mkBool("(str.< " + b.e + " " + a.e + ")")
		case token.GEQ:
			return mkBool("(str.<= " + b.e + " " + a.e + ")")
		}
	case sFP:
		switch op {
		case token.ADD:
			return &sym{s: sFP, e: "(fp.add RNE " + a.e + " " + b.e + ")"}
		case token.SUB:
			return &sym{s: sFP, e: "(fp.sub RNE " + a.e + " " + b.e + ")"}
		case token.MUL:
			return &sym{s: sFP, e: "(fp.mul RNE " + a.e + " " + b.e + ")"}
		case token.QUO:
			return &sym{s: sFP, e: "(fp.div RNE " + a.e + " " + b.e + ")"}
		case token.EQL:
			return mkBool("(fp.eq " + a.e + " " + b.e + ")")
		case token.NEQ:
			return mkBool("(not (fp.eq " + a.e + " " + b.e + "))")
		case token.LSS:
			return mkBool("(fp.lt " + a.e + " " + b.e + ")")
		case token.LEQ:
			return mkBool("(fp.leq " + a.e + " " + b.e + ")")
		case token.GTR:
			return mkBool("(fp.gt " + a.e + " " + b.e + ")")
		case token.GEQ:
			return mkBool("(fp.geq " + a.e + " " + b.e + ")")
		}
	case sBV:
		w, signed := bvInfo(t)
		if a.w != w || b.w != w {
			panic(engineErr(fmt.Sprintf("symBinop: width mismatch %d %d %d (%s)", a.w, b.w, w, t)))
		}
		useInt := a.ie != "" && b.ie != ""
		cmp := func(iop, sop, uop string) value {
			if useInt {
				return mkBool("(" + iop + " " + a.ie + " " + b.ie + ")")
			}
			if signed {
				return mkBool("(" + sop + " " + a.e + " " + b.e + ")")
			}
			return mkBool("(" + uop + " " + a.e + " " + b.e + ")")
		}
		ar := func(bvop string) value {
			return &sym{s: sBV, w: w, e: "(" + bvop + " " + a.e + " " + b.e + ")"}
		}
		switch op {
		case token.ADD:
			r := ar("bvadd").(*sym)
			if useInt {
				r.ie = "(+ " + a.ie + " " + b.ie + ")"
			}
			return r
		case token.SUB:
			return ar("bvsub")
		case token.MUL:
			return ar("bvmul")
		case token.QUO, token.REM:
			// division by zero is a run-time panic
			if fr.i.pc.decide("(= "+b.e+" "+bvConst(0, w)+")", fr) {
				panic(runtimePanic{"runtime error: integer divide by zero"})
			}
			if op == token.QUO {
				if signed {
					return ar("bvsdiv")
				}
				return ar("bvudiv")
			}
			if signed {
				return ar("bvsrem")
			}
			return ar("bvurem")
		case token.AND:
			return ar("bvand")
		case token.OR:
			return ar("bvor")
		case token.XOR:
			return ar("bvxor")
		case token.AND_NOT:
			return &sym{s: sBV, w: w, e: "(bvand " + a.e + " (bvnot " + b.e + "))"}
		case token.EQL:
			if a.e == b.e {
				return true
			}
			if useInt {
				return mkBool("(= " + a.ie + " " + b.ie + ")")
			}
			return mkBool("(= " + a.e + " " + b.e + ")")
		case token.NEQ:
			if a.e == b.e {
				return false
			}
			if useInt {
				return mkBool("(not (= " + a.ie + " " + b.ie + "))")
			}
			return mkBool("(not (= " + a.e + " " + b.e + "))")
		case token.LSS:
			return cmp("<", "bvslt", "bvult")
		case token.LEQ:
			return cmp("<=", "bvsle", "bvule")
		case token.GTR:
			return cmp(">", "bvsgt", "bvugt")
		case token.GEQ:
			return cmp(">=", "bvsge", "bvuge")
		}
	}
	panic(engineErr(fmt.Sprintf("symBinop: unsupported %v %s %v", a, op, b)))
}

func symShift(op token.Token, t types.Type, x, y value) value {
	a := symOf(x)
	w, signed := bvInfo(t)
	// bring shift count to width w (counts are non-negative)
	var cnt string
	switch c := y.(type) {
	case *sym:
		switch {
		case c.w == w:
			cnt = c.e
		case c.w < w:
			cnt = fmt.Sprintf("((_ zero_extend %d) %s)", w-c.w, c.e)
		default:
			// saturate: if any high bit set the count is >= w anyway
			cnt = fmt.Sprintf("(ite (= ((_ extract %d %d) %s) %s) ((_ extract %d 0) %s) %s)",
				c.w-1, w, c.e, bvConst(0, c.w-w), w-1, c.e, bvConst(uint64(w), w))
		}
	default:
		n := asUint64Any(y)
		if n > uint64(w) {
			n = uint64(w)
		}
		cnt = bvConst(n, w)
	}
	switch op {
	case token.SHL:
		return &sym{s: sBV, w: w, e: "(bvshl " + a.e + " " + cnt + ")"}
	default:
		if signed {
			return &sym{s: sBV, w: w, e: "(bvashr " + a.e + " " + cnt + ")"}
		}
		return &sym{s: sBV, w: w, e: "(bvlshr " + a.e + " " + cnt + ")"}
	}
}

func asUint64Any(x value) uint64 {
	switch x := x.(type) {
	case int, int8, int16, int32, int64:
		return uint64(asInt64(x))
	}
	return asUint64(x)
}

func symUnop(op token.Token, x *sym) value {
	switch op {
	case token.NOT:
		return mkBool(smtNot(x.e))
	case token.SUB:
		switch x.s {
		case sBV:
			return &sym{s: sBV, w: x.w, e: "(bvneg " + x.e + ")"}
		case sFP:
			return &sym{s: sFP, e: "(fp.neg " + x.e + ")"}
		}
	case token.XOR:
		return &sym{s: sBV, w: x.w, e: "(bvnot " + x.e + ")"}
	}
	panic(engineErr(fmt.Sprintf("symUnop: unsupported %s %v", op, x)))
}

// symConv converts symbolic x of static type tsrc to tdst.
func symConv(tdst, tsrc types.Type, x *sym) value {
	ud, _ := tdst.Underlying().(*types.Basic)
	us, _ := tsrc.Underlying().(*types.Basic)
	if ud == nil || us == nil {
		panic(engineErr(fmt.Sprintf("symConv: unsupported %s -> %s", tsrc, tdst)))
	}
	switch {
	case x.s == sStr && ud.Info()&types.IsString != 0:
		return x
	case x.s == sBV && ud.Info()&types.IsInteger != 0:
		wd, _ := bvInfo(tdst)
		_, ssigned := bvInfo(tsrc)
		r := &sym{s: sBV, w: wd}
		switch {
		case wd == x.w:
			r.e = x.e
		case wd < x.w:
			r.e = fmt.Sprintf("((_ extract %d 0) %s)", wd-1, x.e)
		case ssigned:
			r.e = fmt.Sprintf("((_ sign_extend %d) %s)", wd-x.w, x.e)
		default:
			r.e = fmt.Sprintf("((_ zero_extend %d) %s)", wd-x.w, x.e)
		}
		if wd >= 32 {
			r.ie = x.ie
		}
		return r
	case x.s == sBV && ud.Info()&types.IsFloat != 0:
		_, ssigned := bvInfo(tsrc)
		if ssigned {
			return &sym{s: sFP, e: "((_ to_fp 11 53) RNE " + x.e + ")"}
		}
		return &sym{s: sFP, e: "((_ to_fp_unsigned 11 53) RNE " + x.e + ")"}
	case x.s == sFP && ud.Info()&types.IsFloat != 0:
		return x // float32 is not modelled separately (not used by go-fed)
	case x.s == sFP && ud.Info()&types.IsInteger != 0:
		wd, dsigned := bvInfo(tdst)
		if dsigned {
			return &sym{s: sBV, w: wd, e: fmt.Sprintf("((_ fp.to_sbv %d) RTZ %s)", wd, x.e)}
		}
		return &sym{s: sBV, w: wd, e: fmt.Sprintf("((_ fp.to_ubv %d) RTZ %s)", wd, x.e)}
	}
	panic(engineErr(fmt.Sprintf("symConv: unsupported %s -> %s", tsrc, tdst)))
}

// symLen returns len(s) for a symbolic string.
func symLen(s *sym) *sym {
	if s.s == sAtom {
		s = atomStr(s)
	}
	l := "(str.len " + s.e + ")"
	return &sym{s: sBV, w: 64, e: "((_ int2bv 64) " + l + ")", ie: l}
}

// intTerm returns an Int-sorted term for a (small, non-negative) integer value.
func intTerm(v value) string {
	switch x := v.(type) {
	case *sym:
		if x.ie != "" {
			return x.ie
		}
		return "(bv2nat " + x.e + ")"
	}
	return intConst(asInt64(v))
}

// symEq builds the Go equality x == y for type t; the result is a bool
// or a *sym of sort Bool.
func symEq(t types.Type, x, y value) value {
	var parts []string
	if !symEqParts(t, x, y, &parts) {
		return false
	}
	return mkBool(smtAnd(parts))
}

func symEqParts(t types.Type, x, y value, parts *[]string) bool {
	_, xs := x.(*sym)
	_, ys := y.(*sym)
	if xs || ys {
		r := symBinop(nil, token.EQL, t, x, y)
		switch r := r.(type) {
		case bool:
			return r
		case *sym:
			*parts = append(*parts, r.e)
			return true
		}
	}
	switch x := x.(type) {
	case structure:
		y := y.(structure)
		st := t.Underlying().(*types.Struct)
		for i := 0; i < st.NumFields(); i++ {
			if !symEqParts(st.Field(i).Type(), x[i], y[i], parts) {
				return false
			}
		}
		return true
	case array:
		y := y.(array)
		et := t.Underlying().(*types.Array).Elem()
		for i := range x {
			if !symEqParts(et, x[i], y[i], parts) {
				return false
			}
		}
		return true
	case iface:
		y := y.(iface)
		if !sameType(x.t, y.t) {
			return false
		}
		if x.t == nil {
			return true
		}
		return symEqParts(x.t, x.v, y.v, parts)
	}
	return equals(t, x, y)
}

func hasSymDeep(v value) bool {
	switch x := v.(type) {
	case *sym:
		return true
	case structure:
		for _, e := range x {
			if hasSymDeep(e) {
				return true
			}
		}
	case array:
		for _, e := range x {
			if hasSymDeep(e) {
				return true
			}
		}
	case iface:
		return hasSymDeep(x.v)
	}
	return false
}
