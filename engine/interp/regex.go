package interp

// regexp on a symbolic string: whether the (unanchored) search finds a match is decided by the
// solver through the SMT-LIB regular-expression theory (str.in_re); the regular expression is
// translated from Go's regexp/syntax tree.  Only "no match" continues symbolically (result nil);
// the contents of the submatch vector of a successful match on a symbolic string stay outside the
// model (the path ends there, counted as pruned).

import (
	"fmt"
	"regexp/syntax"
	"strings"
)

// reToSMT translates a regexp/syntax tree into an SMT-LIB RegLan term over byte strings.
// atStart/atEnd report a leading ^ / trailing $ that the caller turns into anchoring.
func reToSMT(re *syntax.Regexp) (string, error) {
	switch re.Op {
	case syntax.OpEmptyMatch:
		return `(str.to_re "")`, nil
	case syntax.OpLiteral:
		var b strings.Builder
		for _, r := range re.Rune {
			if r > 255 {
				return "", fmt.Errorf("non-byte literal")
			}
			b.WriteByte(byte(r))
		}
		if re.Flags&syntax.FoldCase != 0 {
			return "", fmt.Errorf("case folding")
		}
		return "(str.to_re " + smtString(b.String()) + ")", nil
	case syntax.OpCharClass:
		var parts []string
		for i := 0; i+1 < len(re.Rune); i += 2 {
			lo, hi := re.Rune[i], re.Rune[i+1]
			if lo > 255 {
				continue
			}
			if hi > 255 {
				hi = 255
			}
			parts = append(parts, "(re.range "+smtString(string([]byte{byte(lo)}))+" "+smtString(string([]byte{byte(hi)}))+")")
		}
		switch len(parts) {
		case 0:
			return "re.none", nil
		case 1:
			return parts[0], nil
		}
		return "(re.union " + strings.Join(parts, " ") + ")", nil
	case syntax.OpAnyChar:
		return "re.allchar", nil
	case syntax.OpAnyCharNotNL:
		return `(re.union (re.range "\u{0}" "\u{9}") (re.range "\u{b}" "\u{ff}"))`, nil
	case syntax.OpCapture:
		return reToSMT(re.Sub[0])
	case syntax.OpStar, syntax.OpPlus, syntax.OpQuest:
		s, err := reToSMT(re.Sub[0])
		if err != nil {
			return "", err
		}
		op := map[syntax.Op]string{syntax.OpStar: "re.*", syntax.OpPlus: "re.+", syntax.OpQuest: "re.opt"}[re.Op]
		return "(" + op + " " + s + ")", nil
	case syntax.OpRepeat:
		s, err := reToSMT(re.Sub[0])
		if err != nil {
			return "", err
		}
		if re.Max < 0 {
			return fmt.Sprintf("(re.++ ((_ re.^ %d) %s) (re.* %s))", re.Min, s, s), nil
		}
		return fmt.Sprintf("((_ re.loop %d %d) %s)", re.Min, re.Max, s), nil
	case syntax.OpConcat, syntax.OpAlternate:
		var parts []string
		for _, sub := range re.Sub {
			s, err := reToSMT(sub)
			if err != nil {
				return "", err
			}
			parts = append(parts, s)
		}
		if len(parts) == 1 {
			return parts[0], nil
		}
		op := "re.++"
		if re.Op == syntax.OpAlternate {
			op = "re.union"
		}
		return "(" + op + " " + strings.Join(parts, " ") + ")", nil
	}
	return "", fmt.Errorf("regexp operator %v not translated", re.Op)
}

// searchRegLan returns the RegLan of all strings in which an unanchored search for pattern finds a
// match (leading ^ / trailing $ at the top level are honoured).
func searchRegLan(pattern string) (string, error) {
	re, err := syntax.Parse(pattern, syntax.Perl)
	if err != nil {
		return "", err
	}
	re = re.Simplify()
	subs := []*syntax.Regexp{re}
	if re.Op == syntax.OpConcat {
		subs = re.Sub
	}
	begin, end := false, false
	if len(subs) > 0 && subs[0].Op == syntax.OpBeginText {
		begin, subs = true, subs[1:]
	}
	if len(subs) > 0 && subs[len(subs)-1].Op == syntax.OpEndText {
		end, subs = true, subs[:len(subs)-1]
	}
	parts := []string{}
	if !begin {
		parts = append(parts, "re.all")
	}
	for _, s := range subs {
		t, err := reToSMT(s)
		if err != nil {
			return "", err
		}
		parts = append(parts, t)
	}
	if !end {
		parts = append(parts, "re.all")
	}
	if len(parts) == 0 {
		return `(str.to_re "")`, nil
	}
	if len(parts) == 1 {
		return parts[0], nil
	}
	return "(re.++ " + strings.Join(parts, " ") + ")", nil
}
