package interp

// Mode B: simulated threads (DESIGN §3.2 "Threads").
//
// Every simulated thread runs on its own real goroutine, but a baton makes
// sure exactly one of them executes at any time, so the path-local heap, the
// path condition and the solver session need no locking.  Context switches
// happen only at *scheduling points*: `go`, thread exit, sync.Mutex.Lock,
// sync.WaitGroup.Wait, channel operations, blocking select, and the
// harness-declared points vfYield()/vfGate(key)/vfAwait(cond, then).  Which
// runnable thread continues at a scheduling point is a decision of the path
// (decideN with unconstrained alternatives), so all interleavings at that
// granularity are enumerated by the same stateless DFS that enumerates data
// decisions.  Switching away from a thread that could have continued counts
// against the preemption bound given to vfThreads(bound).
//
// "No runnable thread while some thread is blocked" is a deadlock and is
// reported as a violation (label "deadlock").
//
// A vector-clock happens-before race detector watches loads/stores/map
// operations executed by *target* (non-harness) functions; two conflicting
// accesses not ordered by go/exit+WaitGroup/Mutex/channel edges are reported
// as a violation (label "data-race").

import (
	"fmt"
	"go/token"
	"go/types"
	"strings"

	"golang.org/x/tools/go/ssa"
)

type childPanic struct{ p interface{} }

type sthread struct {
	id      int
	wake    chan struct{}
	exited  chan struct{}
	started bool
	done    bool
	depth   int
	waiting func() bool
	what    string
	vc      []int
}

type wgState struct {
	n  int
	vc []int
}

type accessRec struct {
	wTid   int
	wClk   int
	wSite  string
	rClk   []int // per thread: clock of last read
	rSite  string
	hasW   bool
}

type scheduler struct {
	i        *interpreter
	threads  []*sthread
	cur      *sthread
	preempt  int
	maxPre   int
	failure  interface{}
	killing  bool
	wgs      map[*value]*wgState
	muVC     map[*value][]int
	chVC     map[*schan][]int
	acc      map[interface{}]*accessRec
	race     bool
	gates    [][]value
	switches int
}

func newScheduler(i *interpreter, maxPre int) *scheduler {
	s := &scheduler{i: i, maxPre: maxPre, wgs: map[*value]*wgState{}, muVC: map[*value][]int{}, chVC: map[*schan][]int{},
		acc: map[interface{}]*accessRec{}, race: true}
	main := &sthread{id: 0, wake: make(chan struct{}), exited: make(chan struct{}), started: true, vc: []int{1}}
	s.threads = []*sthread{main}
	s.cur = main
	return s
}

// ---- vector clocks

func vcJoin(a, b []int) []int {
	for len(a) < len(b) {
		a = append(a, 0)
	}
	for k, v := range b {
		if v > a[k] {
			a[k] = v
		}
	}
	return a
}

func vcCopy(a []int) []int { return append([]int(nil), a...) }

func (t *sthread) clk(tid int) int {
	if tid < len(t.vc) {
		return t.vc[tid]
	}
	return 0
}

func (t *sthread) tick() {
	for len(t.vc) <= t.id {
		t.vc = append(t.vc, 0)
	}
	t.vc[t.id]++
}

// release: the current thread publishes its clock into *dst.
func (s *scheduler) release(dst *[]int) {
	*dst = vcJoin(*dst, s.cur.vc)
	s.cur.tick()
}

func (s *scheduler) acquire(src []int) { s.cur.vc = vcJoin(s.cur.vc, src) }

// ---- race detection

func (s *scheduler) tracked(fr *frame) bool {
	if !s.race || fr == nil || fr.fn == nil || fr.info == nil || !fr.info.target {
		return false
	}
	return !fr.i.ld.isHarnessFn(fr.fn)
}

func (s *scheduler) access(fr *frame, key interface{}, write bool) {
	if !s.tracked(fr) {
		return
	}
	t := s.cur
	a := s.acc[key]
	if a == nil {
		a = &accessRec{}
		s.acc[key] = a
	}
	site := fr.fn.String()
	if a.hasW && a.wTid != t.id && a.wClk > t.clk(a.wTid) {
		s.raceFound(fr, fmt.Sprintf("write in %s (thread %d) and %s in %s (thread %d) are not ordered", a.wSite, a.wTid, map[bool]string{true: "write", false: "read"}[write], site, t.id))
	}
	if write {
		for tid, c := range a.rClk {
			if tid != t.id && c > t.clk(tid) {
				s.raceFound(fr, fmt.Sprintf("read in %s (thread %d) and write in %s (thread %d) are not ordered", a.rSite, tid, site, t.id))
			}
		}
		a.hasW, a.wTid, a.wClk, a.wSite = true, t.id, t.clk(t.id), site
	} else {
		for len(a.rClk) <= t.id {
			a.rClk = append(a.rClk, 0)
		}
		a.rClk[t.id] = t.clk(t.id)
		a.rSite = site
	}
}

func (s *scheduler) raceFound(fr *frame, msg string) {
	p := s.i.pc
	p.assertChecks++
	p.sol.send("(push 1)\n")
	r := p.sol.checkSat()
	if r == "sat" {
		s.fillSchedule()
		p.violation("assert", "data-race", fr.site(), "data race: "+msg, true, "")
	} else if r != "unsat" {
		p.markInconclusive("solver " + r + " at model query for data-race")
	}
	p.sol.send("(pop 1)\n")
	panic(pathAbort{"violation", "data-race"})
}

// ---- thread switching

func (s *scheduler) runnable(t *sthread) bool {
	if t.done {
		return false
	}
	if t.waiting == nil {
		return true
	}
	return t.waiting()
}

// transfer hands the baton from me to t and parks me (unless me is done).
func (s *scheduler) transfer(me, t *sthread) {
	if t == me {
		return
	}
	s.switches++
	me.depth = s.i.depth
	s.cur = t
	s.i.depth = t.depth
	t.started = true
	t.wake <- struct{}{}
	if me.done {
		return
	}
	<-me.wake
	if s.killing {
		panic(threadKill{})
	}
	if me.id == 0 && s.failure != nil {
		p := s.failure
		s.failure = nil
		panic(p)
	}
}

// yield is a scheduling point of the current thread.
func (s *scheduler) yield(fr *frame, what string) {
	me := s.cur
	meRunnable := s.runnable(me)
	var opts []*sthread
	if meRunnable {
		opts = append(opts, me)
	}
	if !meRunnable || s.preempt < s.maxPre {
		for _, t := range s.threads {
			if t != me && s.runnable(t) {
				opts = append(opts, t)
			}
		}
	}
	if len(opts) == 0 {
		s.deadlock(fr, what)
	}
	c := 0
	if len(opts) > 1 {
		c = s.i.pc.decideN(len(opts), func(int) string { return "" }, false)
	}
	t := opts[c]
	if t != me && meRunnable {
		s.preempt++
	}
	s.transfer(me, t)
}

func (s *scheduler) deadlock(fr *frame, what string) {
	var parts []string
	for _, t := range s.threads {
		if !t.done {
			parts = append(parts, fmt.Sprintf("thread %d blocked at %s", t.id, t.what))
		}
	}
	p := s.i.pc
	site := "harness"
	if fr != nil {
		site = fr.site()
	}
	p.assertChecks++
	p.sol.send("(push 1)\n")
	r := p.sol.checkSat()
	if r == "sat" {
		s.fillSchedule()
		p.violation("assert", "deadlock", site, "deadlock: "+strings.Join(parts, "; "), true, "")
	} else if r != "unsat" {
		p.markInconclusive("solver " + r + " at model query for deadlock")
	}
	p.sol.send("(pop 1)\n")
	if r == "unsat" {
		panic(pathAbort{"infeasible", "path condition unsat at deadlock"})
	}
	panic(pathAbort{"violation", "deadlock"})
}

// block parks the current thread until cond() holds.
func (s *scheduler) block(fr *frame, what string, cond func() bool) {
	me := s.cur
	me.waiting = cond
	me.what = what
	s.yield(fr, what)
	me.waiting = nil
	me.what = ""
}

func (s *scheduler) spawn(fr *frame, instr *ssa.Go, fn value, args []value) {
	parent := s.cur
	t := &sthread{id: len(s.threads), wake: make(chan struct{}), exited: make(chan struct{})}
	t.vc = vcCopy(parent.vc)
	t.tick()
	parent.tick()
	s.threads = append(s.threads, t)
	i := s.i
	pos := token.NoPos
	if instr != nil {
		pos = instr.Pos()
	}
	go func() {
		defer close(t.exited)
		<-t.wake
		if s.killing {
			return
		}
		defer func() {
			p := recover()
			if _, ok := p.(threadKill); ok {
				return
			}
			t.done = true
			if p != nil {
				if !isAbort(p) {
					p = childPanic{p}
				}
				if s.failure == nil {
					s.failure = p
				}
				// give the baton to the main thread, which re-raises the failure
				main := s.threads[0]
				main.waiting = nil
				s.cur = main
				s.i.depth = main.depth
				main.wake <- struct{}{}
				return
			}
			// normal exit: pick the next thread
			func() {
				defer func() {
					if q := recover(); q != nil {
						// deadlock / abort raised while choosing the successor
						if _, ok := q.(threadKill); ok {
							return
						}
						if s.failure == nil {
							s.failure = q
						}
						main := s.threads[0]
						main.waiting = nil
						s.cur = main
						s.i.depth = main.depth
						main.wake <- struct{}{}
					}
				}()
				s.yield(nil, "exit")
			}()
		}()
		call(i, nil, pos, fn, args)
	}()
	s.yield(fr, "go")
}

// killAll ends every parked thread; called by runPath when the path ends.
func (s *scheduler) killAll() {
	s.killing = true
	for _, t := range s.threads[1:] {
		if t.done && t.started {
			<-t.exited
			continue
		}
		t.wake <- struct{}{}
		<-t.exited
	}
}

// ---- sync primitives

func schedMutexLock(fr *frame, args []value) value {
	s := fr.i.sched
	p := derefPtr(args[0], "Mutex.Lock")
	s.yield(fr, "Mutex.Lock")
	if asInt64((*p).(structure)[0]) != 0 {
		s.block(fr, "Mutex.Lock", func() bool { return asInt64((*p).(structure)[0]) == 0 })
	}
	(*p).(structure)[0] = int32(1)
	s.acquire(s.muVC[p])
	return nil
}

func schedMutexUnlock(fr *frame, args []value) value {
	s := fr.i.sched
	p := derefPtr(args[0], "Mutex.Unlock")
	st := (*p).(structure)
	if asInt64(st[0]) == 0 {
		panic(runtimePanic{"fatal error: sync: unlock of unlocked mutex"})
	}
	st[0] = int32(0)
	vc := s.muVC[p]
	s.release(&vc)
	s.muVC[p] = vc
	return nil
}

func (s *scheduler) wg(p *value) *wgState {
	w := s.wgs[p]
	if w == nil {
		w = &wgState{}
		s.wgs[p] = w
	}
	return w
}

func schedWGAdd(fr *frame, args []value) value {
	s := fr.i.sched
	w := s.wg(derefPtr(args[0], "WaitGroup.Add"))
	d := int(asInt64(args[1]))
	if d < 0 {
		s.release(&w.vc)
	}
	w.n += d
	if w.n < 0 {
		panic(runtimePanic{"sync: negative WaitGroup counter"})
	}
	return nil
}

func schedWGWait(fr *frame, args []value) value {
	s := fr.i.sched
	w := s.wg(derefPtr(args[0], "WaitGroup.Wait"))
	s.yield(fr, "WaitGroup.Wait")
	if w.n > 0 {
		s.block(fr, "WaitGroup.Wait", func() bool { return w.n == 0 })
	}
	s.acquire(w.vc)
	return nil
}

func (s *scheduler) send(fr *frame, c *schan, v value) {
	s.yield(fr, "chan send")
	if c.closed {
		panic(runtimePanic{"send on closed channel"})
	}
	if c.cap == 0 {
		// rendezvous: offer the value, then wait until a receiver took it
		if len(c.buf) > 0 {
			s.block(fr, "chan send (unbuffered)", func() bool { return len(c.buf) == 0 })
		}
		vc := s.chVC[c]
		s.release(&vc)
		s.chVC[c] = vc
		c.buf = append(c.buf, v)
		taken := c.taken
		s.block(fr, "chan send (unbuffered, no receiver)", func() bool { return c.taken > taken })
		return
	}
	if len(c.buf) >= c.cap {
		s.block(fr, "chan send (buffer full)", func() bool { return len(c.buf) < c.cap })
	}
	vc := s.chVC[c]
	s.release(&vc)
	s.chVC[c] = vc
	c.buf = append(c.buf, v)
}

func (s *scheduler) recv(fr *frame, c *schan) (value, bool) {
	s.yield(fr, "chan recv")
	if len(c.buf) == 0 && !c.closed {
		s.block(fr, "chan recv", func() bool { return len(c.buf) > 0 || c.closed })
	}
	if len(c.buf) > 0 {
		v := c.buf[0]
		c.buf = c.buf[1:]
		c.taken++
		s.acquire(s.chVC[c])
		return v, true
	}
	return nil, false
}

func (s *scheduler) wake() {}

func (s *scheduler) sel(fr *frame, instr *ssa.Select) value {
	ready := func() bool {
		for _, st := range instr.States {
			c, _ := fr.get(st.Chan).(*schan)
			if c == nil {
				continue
			}
			if st.Dir == types.RecvOnly {
				if len(c.buf) > 0 || c.closed {
					return true
				}
			} else if c.closed || len(c.buf) < c.cap {
				return true
			}
		}
		return false
	}
	if instr.Blocking {
		s.yield(fr, "select")
		if !ready() {
			s.block(fr, "select", ready)
		}
	}
	chosen := -1
	var recv value
	recvOk := false
	for i, st := range instr.States {
		c, _ := fr.get(st.Chan).(*schan)
		if c == nil {
			continue
		}
		if st.Dir == types.RecvOnly {
			if len(c.buf) > 0 {
				chosen, recv, recvOk = i, c.buf[0], true
				c.buf = c.buf[1:]
				c.taken++
				s.acquire(s.chVC[c])
				break
			}
			if c.closed {
				chosen = i
				break
			}
		} else {
			if c.closed {
				panic(runtimePanic{"send on closed channel"})
			}
			if len(c.buf) < c.cap {
				vc := s.chVC[c]
				s.release(&vc)
				s.chVC[c] = vc
				c.buf = append(c.buf, fr.get(st.Send))
				chosen = i
				break
			}
		}
	}
	r := tuple{chosen, recvOk}
	for i, st := range instr.States {
		if st.Dir == types.RecvOnly {
			var v value
			if i == chosen && recvOk {
				v = recv
			} else {
				v = zero(st.Chan.Type().Underlying().(*types.Chan).Elem())
			}
			r = append(r, v)
		}
	}
	return r
}

// ---- harness API

// vfThreads(bound int): switch the path to simulated threads with the given preemption bound.
func vfThreads(fr *frame, args []value) value {
	if fr.i.sched == nil {
		fr.i.sched = newScheduler(fr.i, int(asInt64(args[0])))
		fr.i.pc.schedFill = fr.i.sched.fillSchedule
	} else {
		fr.i.sched.maxPre = int(asInt64(args[0]))
	}
	return nil
}

// vfYield(): harness-declared scheduling point.
func vfYield(fr *frame, args []value) value {
	if fr.i.sched != nil {
		fr.i.sched.yield(fr, "vfYield")
	}
	return nil
}

// vfGate(kind, key string, f func()): scheduling point whose passage is recorded, in order, in the
// tape ("schedule"), so that the native replay lets the threads pass their gates in the same order;
// f (may be nil) runs atomically with the passage (natively: before the next gate may be passed).
func vfGate(fr *frame, args []value) value {
	s := fr.i.sched
	if s != nil {
		s.yield(fr, "vfGate")
		s.gates = append(s.gates, []value{args[0], args[1]})
	}
	if c, ok := args[2].(*closure); ok && c != nil {
		call(fr.i, fr, token.NoPos, c, nil)
	} else if f, ok := args[2].(*ssa.Function); ok && f != nil {
		call(fr.i, fr, token.NoPos, f, nil)
	}
	return nil
}

// vfAwait(cond func() bool, then func()): block until cond() holds, then run then() atomically with the test.
func vfAwait(fr *frame, args []value) value {
	s := fr.i.sched
	cond := func() bool {
		r := call(fr.i, fr, token.NoPos, args[0], nil)
		switch b := r.(type) {
		case bool:
			return b
		case *sym:
			return fr.i.pc.decide(b.e, fr)
		}
		panic(engineErr(fmt.Sprintf("vfAwait: condition returned %T", r)))
	}
	if s == nil {
		if !cond() {
			panic(engineErr("vfAwait would block (run-to-completion threads)"))
		}
	} else if !cond() {
		// evaluated by whichever thread runs the scheduler: needs the caller frame only for calling
		s.block(fr, "vfAwait", cond)
	}
	call(fr.i, fr, token.NoPos, args[1], nil)
	return nil
}

// vfAtomic(f func()): natively runs f under the harness' global mutex; in the engine harness code
// between scheduling points is atomic anyway.
func vfAtomic(fr *frame, args []value) value {
	call(fr.i, fr, token.NoPos, args[0], nil)
	return nil
}

// fillSchedule resolves the recorded gate keys into the path's tape (called with a model available).
func (s *scheduler) fillSchedule() {
	p := s.i.pc
	var out []interface{}
	for _, g := range s.gates {
		kind, _ := g[0].(string)
		switch x := g[1].(type) {
		case string:
			out = append(out, kind+":"+x)
		case *sym:
			out = append(out, map[string]interface{}{"kind": kind, "term": x.e, "atom": x.s == sAtom})
		default:
			out = append(out, kind+":"+fmt.Sprint(g[1]))
		}
	}
	p.tape["schedule"] = out
}
