package interp

// Per-path state: decisions, path condition, solver interaction, assertions.

import (
	"fmt"
	"net/url"
	"sort"
	"strings"

	"golang.org/x/tools/go/ssa"
)

type inputVar struct {
	Tag  string // harness tag + "#" + occurrence
	Name string // SMT symbol (quoted)
	Kind string // bool|int|float|string|iri
}

type ufApp struct {
	Name string // uf name
	Arg  string // SMT term of the argument (String)
	App  string // SMT term of the application
	Kind string // bool|int|iri
	ArgAtom bool
}

// Violation is one failed assertion / panic found on a path.
type Violation struct {
	Harness   string                 `json:"harness"`
	Label     string                 `json:"label"`
	Kind      string                 `json:"kind"` // assert | panic | hang
	Site      string                 `json:"site"`
	Msg       string                 `json:"msg"`
	Decisions []int32                `json:"decisions"`
	Tape      map[string]interface{} `json:"tape"`
	PCs       []string               `json:"-"`
	Query     string                 `json:"-"`
	Confirmed string                 `json:"confirmed"` // "", yes, no, known
	ReplayDir string                 `json:"replay_dir,omitempty"`
	Pattern   string                 `json:"pattern"`
}

type pathCtx struct {
	run     *Run
	sol     *solver
	prefix  []int32
	pos     int
	trace   []int32
	pcs     []string
	known   map[string]bool
	occ     map[string]int
	inputs  []inputVar
	ufApps  []ufApp
	ufDecl  map[string]bool
	tape    map[string]interface{} // concrete decisions (choose/fault/...) by tag#occ
	covers  map[string]bool
	notes   map[string]bool
	touched map[*ssa.Function]bool
	faults  int
	budgets map[string]int
	counts  map[string]int

	instrs      int64
	instrBudget int64
	nchan       int
	nobj        int

	violations    []*Violation
	status        string // ok | assume | infeasible | panic | inconclusive | unwind
	statusMsg     string
	panicSite     string
	rawPanicStack string
	inconclusive  []string
	newDecisions  int
	allowPanic    bool
	harness       string
	urlConsts     map[string]bool
	ghost         map[string]value // engine-side scratch for intrinsics
	feasChecks    int
	assertChecks  int
	eqConst       map[string]string
	distinct      map[string]bool
	lits          map[string]string // string literal -> atom constant
	litOrder      []string
	atomStrUsed   bool
	hangCheck     bool
	atomTerms     []string // atom-valued terms whose model class is needed for the tape (UF results)
	gateTerms     []string
	schedFill     func()
	opaqueItoa    bool
	urlStruct     bool
	iriAtoms      []string // atoms that stand for absolute IRIs (vfIRI inputs, IRI-valued UF results)
	nonURLLits    []string // literal atoms whose text is not an absolute URL
	atomStrSeen   map[string]bool
	atomStrTerms  []string
	structDone    map[string]bool
	pools         map[*value][]value // sync.Pool contents
	hostTerms     []string // host terms whose host_name matters for rendering real URLs
}

func newPathCtx(run *Run, sol *solver, prefix []int32) *pathCtx {
	return &pathCtx{
		run: run, sol: sol, prefix: prefix,
		known: map[string]bool{}, occ: map[string]int{}, ufDecl: map[string]bool{},
		tape: map[string]interface{}{}, covers: map[string]bool{}, notes: map[string]bool{},
		touched: map[*ssa.Function]bool{}, budgets: map[string]int{}, counts: map[string]int{},
		instrBudget: run.opts.InstrBudget, status: "ok", harness: run.harness,
		urlConsts: map[string]bool{}, ghost: map[string]value{}, eqConst: map[string]string{}, distinct: map[string]bool{}, lits: map[string]string{},
	}
}

func (p *pathCtx) note(s string)            { p.notes[s] = true }
func (p *pathCtx) touch(fn *ssa.Function)   { p.touched[fn] = true }
func (p *pathCtx) markInconclusive(s string) { p.inconclusive = append(p.inconclusive, s) }

// splitEq recognises (= X "lit") and returns X and the decoded literal.
func splitEq(t string) (string, string, bool) {
	if !strings.HasPrefix(t, "(= ") || !strings.HasSuffix(t, "\")") {
		return "", "", false
	}
	body := t[3 : len(t)-1]
	// find the last top-level space before the literal
	depth, inStr := 0, false
	split := -1
	for i := 0; i < len(body); i++ {
		c := body[i]
		if inStr {
			if c == '"' {
				inStr = false
			}
			continue
		}
		switch c {
		case '"':
			inStr = true
		case '|':
			j := strings.IndexByte(body[i+1:], '|')
			if j < 0 {
				return "", "", false
			}
			i += j + 1
		case '(':
			depth++
		case ')':
			depth--
		case ' ':
			if depth == 0 {
				if split >= 0 {
					return "", "", false
				}
				split = i
			}
		}
	}
	if split < 0 {
		return "", "", false
	}
	x, lit := body[:split], body[split+1:]
	if len(lit) < 2 || lit[0] != '"' || len(x) == 0 || x[0] == '"' {
		return "", "", false
	}
	v, ok := decodeSMTString(lit)
	return x, v, ok
}

// litAtom interns a string literal as a constant of sort Atom; distinct
// literals are distinct atoms, and a literal that is a URL knows its host.
func (p *pathCtx) litAtom(s string) string {
	if a, ok := p.lits[s]; ok {
		return a
	}
	name := fmt.Sprintf("|lit!%d|", len(p.lits))
	p.sol.send("(declare-const " + name + " Atom)\n")
	if p.atomStrUsed {
		p.sol.send("(assert (= (atom_str " + name + ") " + smtString(s) + "))\n")
	}
	for _, o := range p.litOrder {
		p.distinct[name+"\x00"+p.lits[o]] = true
		p.distinct[p.lits[o]+"\x00"+name] = true
	}
	p.lits[s] = name
	p.litOrder = append(p.litOrder, s)
	if len(p.litOrder) > 1 {
		var all []string
		for _, o := range p.litOrder {
			all = append(all, p.lits[o])
		}
		p.sol.send("(assert (distinct " + strings.Join(all, " ") + "))\n")
	}
	if u, err := url.Parse(s); err == nil && u.Scheme != "" && u.Host != "" {
		h := p.litAtom(u.Host)
		p.sol.send("(assert (= (iri_host " + name + ") " + h + "))\n")
	} else if (err != nil || u.Scheme == "") && !strings.Contains(s, ".") {
		// a literal without a scheme (and no host name) is never the value of an IRI atom
		// ("as:Public" has a scheme and stays a possible value)
		p.nonURLLits = append(p.nonURLLits, name)
		for _, a := range p.iriAtoms {
			p.sol.send("(assert (distinct " + a + " " + name + "))\n")
		}
	}
	return name
}

// splitEq2 recognises (= A B) for two arbitrary terms.
func splitEq2(t string) (string, string, bool) {
	if !strings.HasPrefix(t, "(= ") || !strings.HasSuffix(t, ")") {
		return "", "", false
	}
	body := t[3 : len(t)-1]
	depth, inStr := 0, false
	split := -1
	for i := 0; i < len(body); i++ {
		c := body[i]
		if inStr {
			if c == '"' {
				inStr = false
			}
			continue
		}
		switch c {
		case '"':
			inStr = true
		case '|':
			j := strings.IndexByte(body[i+1:], '|')
			if j < 0 {
				return "", "", false
			}
			i += j + 1
		case '(':
			depth++
		case ')':
			depth--
		case ' ':
			if depth == 0 {
				if split >= 0 {
					return "", "", false
				}
				split = i
			}
		}
	}
	if split < 0 {
		return "", "", false
	}
	return body[:split], body[split+1:], true
}

// constOf returns the string constant a term is known to equal on this path.
func (p *pathCtx) constOf(term string) (string, bool) {
	v, ok := p.eqConst[term]
	return v, ok
}

func (p *pathCtx) assertTerm(t string) {
	if t == "true" {
		return
	}
	if x, v, ok := splitEq(t); ok {
		p.eqConst[x] = v
	}
	p.sol.send("(assert " + t + ")\n")
	p.pcs = append(p.pcs, t)
	p.known[t] = true
}

func (p *pathCtx) declare(name, sort string) {
	p.sol.send("(declare-const " + name + " " + sort + ")\n")
}

// check asks whether pc ∧ extra is satisfiable.
func (p *pathCtx) check(extra string) string {
	p.sol.send("(push 1)\n(assert " + extra + ")\n")
	r := p.sol.checkSat()
	p.sol.send("(pop 1)\n")
	return r
}

// decide resolves a symbolic boolean to a concrete branch.
func (p *pathCtx) decide(term string, fr *frame) bool {
	switch term {
	case "true":
		return true
	case "false":
		return false
	}
	if v, ok := p.known[term]; ok {
		return v
	}
	neg := smtNot(term)
	if v, ok := p.known[neg]; ok {
		return !v
	}
	if a, b, ok := splitEq2(term); ok && p.distinct[a+"\x00"+b] {
		return false
	}
	if a, b, ok := splitEq2(neg); ok && p.distinct[a+"\x00"+b] {
		return true
	}
	if x, lit, ok := splitEq(term); ok {
		if c, ok := p.eqConst[x]; ok {
			return c == lit
		}
	} else if x, lit, ok := splitEq(neg); ok {
		if c, ok := p.eqConst[x]; ok {
			return c != lit
		}
	}
	if fr != nil && fr.fn != nil {
		p.touch(fr.fn)
	}
	c := p.decideN(2, func(i int) string {
		if i == 0 {
			return term
		}
		return neg
	}, true)
	p.known[term] = c == 0
	return c == 0
}

// decideN picks one of n alternatives.  termOf(i) is the constraint of
// alternative i ("" = unconstrained).  exhaustive says the alternatives
// cover every case (so the last one needs no check when all others are unsat).
func (p *pathCtx) decideN(n int, termOf func(int) string, exhaustive bool) int {
	if p.pos < len(p.prefix) {
		c := int(p.prefix[p.pos])
		p.pos++
		p.trace = append(p.trace, int32(c))
		if t := termOf(c); t != "" {
			p.assertTerm(t)
		}
		return c
	}
	if p.run.opts.MaxDecisions > 0 && len(p.trace) >= p.run.opts.MaxDecisions {
		panic(pathAbort{"unwind", fmt.Sprintf("decision bound %d reached", p.run.opts.MaxDecisions)})
	}
	var feas []int
	for i := 0; i < n; i++ {
		t := termOf(i)
		if t == "" || t == "true" {
			feas = append(feas, i)
			continue
		}
		if t == "false" {
			continue
		}
		if exhaustive && i == n-1 && len(feas) == 0 {
			feas = append(feas, i) // the path itself is feasible
			continue
		}
		p.feasChecks++
		switch r := p.check(t); r {
		case "sat":
			feas = append(feas, i)
		case "unsat":
		default:
			p.markInconclusive("solver " + r + " at feasibility check")
			feas = append(feas, i)
		}
	}
	if len(feas) == 0 {
		panic(pathAbort{"infeasible", "no feasible alternative"})
	}
	base := len(p.trace)
	for _, alt := range feas[1:] {
		np := make([]int32, base+1)
		copy(np, p.trace)
		np[base] = int32(alt)
		p.run.push(np)
	}
	c := feas[0]
	p.trace = append(p.trace, int32(c))
	p.pos++
	p.newDecisions++
	if t := termOf(c); t != "" {
		p.assertTerm(t)
	}
	return c
}

// concretize turns an integer value into a concrete int64.  A symbolic
// value is case-split over [lo,hi]; one extra alternative covers every
// value outside the range (returned as lo-1, which callers treat as out
// of range).
func (p *pathCtx) concretize(fr *frame, v value, lo, hi int, what string) int64 {
	s, ok := v.(*sym)
	if !ok {
		return asInt64(v)
	}
	if hi < lo {
		hi = lo - 1
	}
	n := hi - lo + 1
	if n > 64 {
		panic(engineErr(fmt.Sprintf("concretize %s: range %d..%d too wide", what, lo, hi)))
	}
	if fr != nil {
		p.touch(fr.fn)
	}
	eq := func(k int) string {
		if s.ie != "" {
			return "(= " + s.ie + " " + intConst(int64(k)) + ")"
		}
		return "(= " + s.e + " " + bvConst(uint64(int64(k)), s.w) + ")"
	}
	c := p.decideN(n+1, func(i int) string {
		if i < n {
			return eq(lo + i)
		}
		var parts []string
		for k := lo; k <= hi; k++ {
			parts = append(parts, smtNot(eq(k)))
		}
		return smtAnd(parts)
	}, true)
	if c < n {
		return int64(lo + c)
	}
	return int64(lo - 1)
}

// fresh declares a new symbolic input.
func (p *pathCtx) fresh(tag, kind string) *sym {
	k := p.occ[tag]
	p.occ[tag] = k + 1
	full := fmt.Sprintf("%s#%d", tag, k)
	name := "|" + strings.NewReplacer("|", "_", "\\", "_").Replace(full) + "|"
	var s *sym
	switch kind {
	case "bool":
		p.declare(name, "Bool")
		s = &sym{s: sBool, e: name}
	case "int":
		p.declare(name, "(_ BitVec 64)")
		s = &sym{s: sBV, w: 64, e: name}
	case "float":
		p.declare(name, "(_ FloatingPoint 11 53)")
		s = &sym{s: sFP, e: name}
	case "string":
		p.declare(name, "String")
		s = &sym{s: sStr, e: name}
	case "iri":
		p.declare(name, "Atom")
		s = &sym{s: sAtom, e: name, pc: p}
		p.noteIRIAtom(name)
	default:
		panic(engineErr("fresh: kind " + kind))
	}
	p.inputs = append(p.inputs, inputVar{Tag: full, Name: name, Kind: kind})
	return s
}

// noteIRIAtom: an atom that stands for an absolute IRI differs from every literal that is no URL.
func (p *pathCtx) noteIRIAtom(t string) {
	p.iriAtoms = append(p.iriAtoms, t)
	for _, l := range p.nonURLLits {
		p.sol.send("(assert (distinct " + t + " " + l + "))\n")
	}
}

func (p *pathCtx) tapeKey(tag string) string {
	k := p.occ[tag]
	p.occ[tag] = k + 1
	return fmt.Sprintf("%s#%d", tag, k)
}

// model extracts a tape from the solver's current model (after a sat answer
// inside the current push scope).
func (p *pathCtx) model() (map[string]interface{}, error) {
	tape := map[string]interface{}{}
	for k, v := range p.tape {
		tape[k] = v
	}
	var terms []string
	add := func(t string) { terms = append(terms, t) }
	for _, in := range p.inputs {
		add(in.Name)
		if in.Kind == "iri" {
			add("(iri_host " + in.Name + ")")
		}
	}
	for _, u := range p.ufApps {
		add(u.Arg)
		add(u.App)
		if u.Kind == "iri" {
			add("(iri_host " + u.App + ")")
		}
	}
	for _, l := range p.litOrder {
		add(p.lits[l])
	}
	for _, h := range p.hostTerms {
		add(h)
		add("(host_name " + h + ")")
	}
	if p.urlStruct {
		for _, t := range p.atomStrTerms {
			add(t)
			add("(atom_str " + t + ")")
		}
	}
	sched, _ := tape["schedule"].([]interface{})
	for _, g := range sched {
		if m, ok := g.(map[string]interface{}); ok {
			add(m["term"].(string))
			if m["atom"].(bool) {
				add("(iri_host " + m["term"].(string) + ")")
			}
		}
	}
	if len(terms) == 0 {
		return tape, nil
	}
	vals, err := p.sol.getValues(terms)
	if err != nil {
		return tape, err
	}
	// atoms: equivalence classes of the model -> concrete strings
	classLit := map[string]string{}
	for _, l := range p.litOrder {
		classLit[vals[p.lits[l]]] = l
	}
	hostOf := map[string]string{} // IRI class -> host class
	note := func(term string) {
		c := vals[term]
		if h, ok := vals["(iri_host "+term+")"]; ok {
			if _, seen := hostOf[c]; !seen {
				hostOf[c] = h
			}
		}
	}
	for _, in := range p.inputs {
		if in.Kind == "iri" {
			note(in.Name)
		}
	}
	for _, u := range p.ufApps {
		if u.Kind == "iri" {
			note(u.App)
		}
	}
	for _, g := range sched {
		if m, ok := g.(map[string]interface{}); ok && m["atom"].(bool) {
			note(m["term"].(string))
		}
	}
	classIdx := map[string]int{}
	idx := func(c string) int {
		if i, ok := classIdx[c]; ok {
			return i
		}
		classIdx[c] = len(classIdx)
		return classIdx[c]
	}
	// with URL text structure on, an atom is rendered by the text the model gives it
	classStr := map[string]string{}
	if p.urlStruct {
		for _, t := range p.atomStrTerms {
			if sv, ok := decodeSMTString(vals["(atom_str "+t+")"]); ok {
				classStr[vals[t]] = sv
			}
		}
	}
	// a host whose host_name is another atom is rendered with a port
	hostnameOf := map[string]string{}
	for _, h := range p.hostTerms {
		hostnameOf[vals[h]] = vals["(host_name "+h+")"]
	}
	hostName := func(hc string) string {
		if l, ok := classLit[hc]; ok && l != "" {
			return l
		}
		if sv, ok := classStr[hc]; ok {
			return sv
		}
		if hn, ok := hostnameOf[hc]; ok && hn != hc {
			if l, ok := classLit[hn]; ok && l != "" {
				return l + ":8443"
			}
			return fmt.Sprintf("h%d.example:8443", idx(hn))
		}
		return fmt.Sprintf("h%d.example", idx(hc))
	}
	atomText := func(c string) string {
		if l, ok := classLit[c]; ok {
			return l
		}
		if sv, ok := classStr[c]; ok {
			return sv
		}
		if hc, ok := hostOf[c]; ok {
			return fmt.Sprintf("https://%s/iri/%d", hostName(hc), idx(c))
		}
		return fmt.Sprintf("atom%d", idx(c))
	}
	isAtomArg := func(t string) bool { _, ok := vals[t]; return ok && !strings.HasPrefix(vals[t], "\"") }
	for _, in := range p.inputs {
		raw := vals[in.Name]
		switch in.Kind {
		case "bool":
			tape[in.Tag] = raw == "true"
		case "int":
			tape[in.Tag] = parseBV(raw)
		case "float":
			tape[in.Tag] = parseFP(raw)
		case "string":
			s, _ := decodeSMTString(raw)
			tape[in.Tag] = s
		case "iri":
			tape[in.Tag] = atomText(raw)
		}
	}
	if len(sched) > 0 {
		out := make([]interface{}, len(sched))
		for k, g := range sched {
			out[k] = g
			if m, ok := g.(map[string]interface{}); ok {
				if m["atom"].(bool) {
					out[k] = m["kind"].(string) + ":" + atomText(vals[m["term"].(string)])
				} else {
					s, _ := decodeSMTString(vals[m["term"].(string)])
					out[k] = m["kind"].(string) + ":" + s
				}
			}
		}
		tape["schedule"] = out
	}
	for _, u := range p.ufApps {
		var arg string
		if u.ArgAtom && isAtomArg(u.Arg) {
			arg = atomText(vals[u.Arg])
		} else {
			arg, _ = decodeSMTString(vals[u.Arg])
		}
		key := "uf:" + u.Name + ":" + arg
		switch u.Kind {
		case "bool":
			tape[key] = vals[u.App] == "true"
		case "int":
			tape[key] = parseBV(vals[u.App])
		case "iri":
			tape[key] = atomText(vals[u.App])
		}
	}
	return tape, nil
}

// renameIRI maps a model string standing for an IRI to a real URL that
// url.Parse accepts, injectively, preserving host (dis)equalities.
func renameIRI(s, host string, consts map[string]bool) string {
	if consts[s] {
		return s
	}
	// a model string that really is an absolute URL in normal form stays verbatim
	if u, err := url.Parse(s); err == nil && u.Scheme != "" && u.String() == s && (u.Host == host || u.Host == "") {
		return s
	}
	return "https://" + encHost(host) + "/" + hexStr(s)
}

func encHost(h string) string {
	ok := h != "" && !strings.HasPrefix(h, "x--")
	for i := 0; i < len(h) && ok; i++ {
		c := h[i]
		if !(c >= 'a' && c <= 'z' || c >= '0' && c <= '9' || c == '.' || c == '-') {
			ok = false
		}
	}
	if ok {
		return h
	}
	return "x--" + hexStr(h)
}

func hexStr(s string) string {
	const d = "0123456789abcdef"
	b := make([]byte, 0, 2*len(s)+1)
	b = append(b, 'h')
	for i := 0; i < len(s); i++ {
		b = append(b, d[s[i]>>4], d[s[i]&15])
	}
	return string(b)
}

func parseBV(raw string) int64 {
	raw = strings.TrimSpace(raw)
	var v uint64
	switch {
	case strings.HasPrefix(raw, "#b"):
		for _, c := range raw[2:] {
			v = v<<1 | uint64(c-'0')
		}
	case strings.HasPrefix(raw, "#x"):
		fmt.Sscanf(raw[2:], "%x", &v)
	case strings.HasPrefix(raw, "(_ bv"):
		fmt.Sscanf(raw[5:], "%d", &v)
	default:
		var iv int64
		if strings.HasPrefix(raw, "(- ") {
			fmt.Sscanf(raw[3:], "%d", &iv)
			return -iv
		}
		fmt.Sscanf(raw, "%d", &iv)
		return iv
	}
	return int64(v)
}

func parseFP(raw string) interface{} {
	// (fp #b0 #b10000000000 #b000...) or (_ +zero 11 53) etc.
	raw = strings.TrimSpace(raw)
	if strings.HasPrefix(raw, "(fp ") {
		f := strings.Fields(strings.Trim(raw, "()"))
		if len(f) == 4 {
			bits := strings.TrimPrefix(f[1], "#b") + strings.TrimPrefix(f[2], "#b") + strings.TrimPrefix(f[3], "#b")
			var v uint64
			for _, c := range bits {
				v = v<<1 | uint64(c-'0')
			}
			return map[string]interface{}{"f64bits": fmt.Sprintf("%016x", v)}
		}
	}
	switch {
	case strings.Contains(raw, "+zero"):
		return map[string]interface{}{"f64bits": "0000000000000000"}
	case strings.Contains(raw, "-zero"):
		return map[string]interface{}{"f64bits": "8000000000000000"}
	case strings.Contains(raw, "+oo"):
		return map[string]interface{}{"f64bits": "7ff0000000000000"}
	case strings.Contains(raw, "-oo"):
		return map[string]interface{}{"f64bits": "fff0000000000000"}
	case strings.Contains(raw, "NaN"):
		return map[string]interface{}{"f64bits": "7ff8000000000001"}
	}
	return map[string]interface{}{"f64bits": "0000000000000000", "raw": raw}
}

// pattern summarises which faults/choices were taken on the path (for
// known-finding matching).
func (p *pathCtx) pattern() string {
	var parts []string
	for k, v := range p.tape {
		if b, ok := v.(bool); ok && b && strings.HasPrefix(k, "fault:") {
			parts = append(parts, k)
		}
	}
	sort.Strings(parts)
	return strings.Join(parts, ",")
}

// violation records a failed assertion; the solver must be in a state
// where (get-value) is legal if haveModel.
func (p *pathCtx) violation(kind, label, site, msg string, haveModel bool, query string) {
	if p.schedFill != nil {
		p.schedFill()
	}
	v := &Violation{Harness: p.harness, Label: label, Kind: kind, Site: site, Msg: msg,
		Decisions: append([]int32(nil), p.trace...), PCs: append([]string(nil), p.pcs...), Query: query}
	if haveModel {
		t, err := p.model()
		if err != nil {
			p.markInconclusive("model extraction failed: " + err.Error())
		}
		v.Tape = t
	} else {
		v.Tape = map[string]interface{}{}
		for k, val := range p.tape {
			v.Tape[k] = val
		}
	}
	v.Pattern = p.pattern()
	p.violations = append(p.violations, v)
}

// vfAssertImpl checks an assertion on the current path.
func (p *pathCtx) vfAssertImpl(cond value, label string, fr *frame) {
	site := ""
	if fr != nil {
		site = fr.site()
	}
	switch c := cond.(type) {
	case bool:
		if c {
			return
		}
		// concretely false on a feasible path: get a model of the path condition
		p.assertChecks++
		p.sol.send("(push 1)\n")
		r := p.sol.checkSat()
		if r == "sat" {
			p.violation("assert", label, site, "assertion is concretely false on this path", true, "")
		} else if r != "unsat" {
			p.markInconclusive("solver " + r + " at model query for " + label)
		}
		p.sol.send("(pop 1)\n")
		if r == "sat" || r != "unsat" {
			panic(pathAbort{"violation", label})
		}
		panic(pathAbort{"infeasible", "path condition unsat at " + label})
	case *sym:
		neg := smtNot(c.e)
		if v, ok := p.known[c.e]; ok && v {
			return
		}
		p.assertChecks++
		p.sol.send("(push 1)\n(assert " + neg + ")\n")
		r := p.sol.checkSat()
		switch r {
		case "unsat":
		case "sat":
			p.violation("assert", label, site, "assertion can be false", true, neg)
		default:
			p.markInconclusive("solver " + r + " at assertion " + label)
		}
		p.sol.send("(pop 1)\n")
		// continue under the asserted condition
		if r == "sat" {
			if p.check(c.e) != "sat" {
				panic(pathAbort{"violation", label})
			}
			p.assertTerm(c.e)
		}
	default:
		panic(engineErr(fmt.Sprintf("vfAssert on %T", cond)))
	}
}

func (p *pathCtx) vfAssumeImpl(cond value, label string) {
	switch c := cond.(type) {
	case bool:
		if !c {
			panic(pathAbort{"assume", label})
		}
	case *sym:
		if v, ok := p.known[c.e]; ok {
			if !v {
				panic(pathAbort{"assume", label})
			}
			return
		}
		p.feasChecks++
		r := p.check(c.e)
		if r == "unsat" {
			panic(pathAbort{"assume", label})
		}
		if r != "sat" {
			p.markInconclusive("solver " + r + " at assumption " + label)
		}
		p.assertTerm(c.e)
	}
}
