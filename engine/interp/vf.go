package interp

// The vf* harness API (DESIGN §3.3): intercepted by function name.

import (
	"fmt"
	"go/types"
	"sort"
	"strings"
)

type intrinsicFn func(fr *frame, args []value) value

var vfIntrinsics = map[string]intrinsicFn{}

func init() {
	for k, v := range map[string]intrinsicFn{
		"vfBool":       vfBool,
		"vfInt":        vfInt,
		"vfString":     vfString,
		"vfFloat":      vfFloat,
		"vfIRI":        vfIRI,
		"vfChoose":     vfChoose,
		"vfFault":      vfFault,
		"vfAssume":     vfAssume,
		"vfAssert":     vfAssert,
		"vfCover":      vfCover,
		"vfUFBool":     vfUFBool,
		"vfUFInt":      vfUFInt,
		"vfUFIRI":      vfUFIRI,
		"vfAnd":        vfAnd,
		"vfOr":         vfOr,
		"vfNot":        vfNot,
		"vfImplies":    vfImplies,
		"vfIff":        vfIff,
		"vfStrEq":      vfStrEq,
		"vfMarshal":    vfMarshal,
		"vfGarbled":    vfGarbled,
		"vfTree":       vfTree,
		"vfDigest":     vfDigest,
		"vfAllowPanic": vfAllowPanic,
		"vfHangCheck":  func(fr *frame, args []value) value { fr.i.pc.hangCheck = args[0].(bool); return nil },
		"vfNote":       vfNote,
		"vfParam":      vfParam,
		"vfSymbolic":   vfSymbolic,
		"vfTime":       vfTime,
		"vfTimeEq":     vfTimeEq,
		"vfFormatTime": vfFormatTime,
		"vfStrIn":      vfStrIn,
		"vfContains":   vfContains,
		"vfDistinct":   vfDistinct,
		"vfIndex":      vfIndex,
		"vfLog":        vfLog,
		"vfEngine":     func(fr *frame, args []value) value { return true },
		"vfYield":      vfYield,
		"vfThreads":    vfThreads,
		"vfGate":       vfGate,
		"vfAwait":      vfAwait,
		"vfAtomic":     vfAtomic,
		"vfSameBytes":  vfSameBytes,
		"vfCount":      vfCount,
		"vfOpaqueItoa": func(fr *frame, args []value) value { fr.i.pc.opaqueItoa = args[0].(bool); return nil },
	} {
		vfIntrinsics[k] = v
	}
}

func argString(v value, what string) string {
	s, ok := v.(string)
	if !ok {
		panic(engineErr(fmt.Sprintf("%s must be a concrete string, got %T", what, v)))
	}
	return s
}

func vfBool(fr *frame, args []value) value {
	return fr.i.pc.fresh(argString(args[0], "tag"), "bool")
}

func vfInt(fr *frame, args []value) value {
	pc := fr.i.pc
	s := pc.fresh(argString(args[0], "tag"), "int")
	lo, hi := asInt64(args[1]), asInt64(args[2])
	pc.assertTerm("(bvsle " + bvConst(uint64(lo), 64) + " " + s.e + ")")
	pc.assertTerm("(bvsle " + s.e + " " + bvConst(uint64(hi), 64) + ")")
	return s
}

func vfString(fr *frame, args []value) value {
	return fr.i.pc.fresh(argString(args[0], "tag"), "string")
}

func vfFloat(fr *frame, args []value) value {
	s := fr.i.pc.fresh(argString(args[0], "tag"), "float")
	return s
}

// vfIRI returns a symbolic IRI: an absolute https IRI in URL-normal form
// (url.Parse succeeds, scheme https, non-empty host, String() == itself),
// modelled as an element of the uninterpreted sort Atom: the code under test
// only ever compares IRIs, looks at their host and scheme, and uses them as
// map keys.
func vfIRI(fr *frame, args []value) value {
	return fr.i.pc.fresh(argString(args[0], "tag"), "iri")
}

func vfChoose(fr *frame, args []value) value {
	pc := fr.i.pc
	key := pc.tapeKey("choose:" + argString(args[0], "tag"))
	n := int(asInt64(args[1]))
	if n <= 0 {
		panic(engineErr("vfChoose n<=0"))
	}
	c := pc.decideN(n, func(int) string { return "" }, false)
	pc.tape[key] = c
	return c
}

// vfFault: "this environment call fails".  Bounded by the budget "faults"
// (default 1): once the budget is used no further fault is offered.
func vfFault(fr *frame, args []value) value {
	pc := fr.i.pc
	site := argString(args[0], "site")
	key := pc.tapeKey("fault:" + site)
	budget, ok := pc.budgets["faults"]
	if !ok {
		budget = 1
	}
	if pc.faults >= budget {
		pc.tape[key] = false
		return false
	}
	c := pc.decideN(2, func(int) string { return "" }, false)
	pc.tape[key] = c == 1
	if c == 1 {
		pc.faults++
	}
	return c == 1
}

func vfAssume(fr *frame, args []value) value {
	fr.i.pc.vfAssumeImpl(args[0], argString(args[1], "label"))
	return nil
}

func vfAssert(fr *frame, args []value) value {
	fr.i.pc.vfAssertImpl(args[0], argString(args[1], "label"), fr)
	return nil
}

func vfCover(fr *frame, args []value) value {
	fr.i.pc.covers[argString(args[0], "label")] = true
	return nil
}

func (p *pathCtx) ufApply(name string, arg value, kind string) *sym {
	var a *sym
	argAtom := false
	switch x := arg.(type) {
	case *sym:
		a = x
		argAtom = x.s == sAtom
	case string:
		// ids are atoms: intern the literal
		a = &sym{s: sAtom, e: p.litAtom(x), pc: p}
		argAtom = true
	default:
		a = symOf(arg)
	}
	fn := "uf_" + name
	argSort := "String"
	if argAtom {
		fn += "_a"
		argSort = "Atom"
	}
	if !p.ufDecl[fn+kind] {
		p.ufDecl[fn+kind] = true
		switch kind {
		case "bool":
			p.sol.send("(declare-fun " + fn + " (" + argSort + ") Bool)\n")
		case "int":
			p.sol.send("(declare-fun " + fn + " (" + argSort + ") (_ BitVec 64))\n")
		case "iri":
			p.sol.send("(declare-fun " + fn + " (" + argSort + ") Atom)\n")
		}
	}
	app := "(" + fn + " " + a.e + ")"
	seen := false
	for _, u := range p.ufApps {
		if u.App == app {
			seen = true
			break
		}
	}
	if !seen {
		p.ufApps = append(p.ufApps, ufApp{Name: name, Arg: a.e, App: app, Kind: kind, ArgAtom: argAtom})
	}
	switch kind {
	case "bool":
		return &sym{s: sBool, e: app}
	case "iri":
		if !seen {
			p.noteIRIAtom(app)
		}
		return &sym{s: sAtom, e: app, pc: p}
	default:
		return &sym{s: sBV, w: 64, e: app}
	}
}

// vfUFIRI(name, arg): uninterpreted function id -> IRI.
func vfUFIRI(fr *frame, args []value) value {
	return fr.i.pc.ufApply(argString(args[0], "name"), args[1], "iri")
}

// vfUFBool(name, arg): an uninterpreted predicate of a string (same
// argument => same answer), e.g. Owns(id).
func vfUFBool(fr *frame, args []value) value {
	return fr.i.pc.ufApply(argString(args[0], "name"), args[1], "bool")
}

// vfUFInt(name, arg, lo, hi): uninterpreted function String -> [lo,hi].
func vfUFInt(fr *frame, args []value) value {
	pc := fr.i.pc
	s := pc.ufApply(argString(args[0], "name"), args[1], "int")
	lo, hi := asInt64(args[2]), asInt64(args[3])
	rng := "(and (bvsle " + bvConst(uint64(lo), 64) + " " + s.e + ") (bvsle " + s.e + " " + bvConst(uint64(hi), 64) + "))"
	if !pc.known[rng] {
		pc.assertTerm(rng)
	}
	return s
}

func boolTerm(v value) string { return symOf(v).e }

func vfAnd(fr *frame, args []value) value {
	return mkBool(smtAnd([]string{boolTerm(args[0]), boolTerm(args[1])}))
}
func vfOr(fr *frame, args []value) value {
	return mkBool(smtOr([]string{boolTerm(args[0]), boolTerm(args[1])}))
}
func vfNot(fr *frame, args []value) value { return mkBool(smtNot(boolTerm(args[0]))) }
func vfImplies(fr *frame, args []value) value {
	return mkBool(smtOr([]string{smtNot(boolTerm(args[0])), boolTerm(args[1])}))
}
func vfIff(fr *frame, args []value) value {
	a, b := boolTerm(args[0]), boolTerm(args[1])
	if a == b {
		return true
	}
	if !isSym(args[0]) && !isSym(args[1]) {
		return args[0].(bool) == args[1].(bool)
	}
	return mkBool("(= " + a + " " + b + ")")
}
func vfStrEq(fr *frame, args []value) value {
	return symEq(types.Typ[types.String], args[0], args[1])
}

// vfStrIn(s, list []string) builds one term: s equals some element.
func vfStrIn(fr *frame, args []value) value {
	list, _ := args[1].([]value)
	var parts []string
	for _, e := range list {
		switch r := symEq(types.Typ[types.String], args[0], e).(type) {
		case bool:
			if r {
				return true
			}
		case *sym:
			parts = append(parts, r.e)
		}
	}
	return mkBool(smtOr(parts))
}

// vfDistinct(list []string): assume the strings pairwise distinct (one
// assertion); later equality tests between them are answered without a query.
func vfDistinct(fr *frame, args []value) value {
	pc := fr.i.pc
	list, _ := args[0].([]value)
	var terms []string
	anyAtom := false
	for _, e := range list {
		if isAtom(e) {
			anyAtom = true
		}
	}
	for _, e := range list {
		if cs, ok := e.(string); ok && anyAtom {
			terms = append(terms, pc.litAtom(cs))
			continue
		}
		terms = append(terms, symOf(e).e)
	}
	for i := range terms {
		for j := i + 1; j < len(terms); j++ {
			if terms[i] == terms[j] {
				panic(pathAbort{"assume", "vfDistinct: identical terms"})
			}
			pc.distinct[terms[i]+"\x00"+terms[j]] = true
			pc.distinct[terms[j]+"\x00"+terms[i]] = true
		}
	}
	if len(terms) > 1 {
		pc.assertTerm("(distinct " + strings.Join(terms, " ") + ")")
	}
	return nil
}

// vfIndex(tag, n): a symbolic index assumed in [0,n), case-split by the solver into a concrete int.
func vfIndex(fr *frame, args []value) value {
	pc := fr.i.pc
	n := asInt64(args[1])
	if n <= 0 {
		panic(pathAbort{"assume", "vfIndex: empty range"})
	}
	s := pc.fresh(argString(args[0], "tag"), "int")
	pc.assertTerm("(bvsle " + bvConst(0, 64) + " " + s.e + ")")
	pc.assertTerm("(bvslt " + s.e + " " + bvConst(uint64(n), 64) + ")")
	return int(pc.concretize(fr, s, 0, int(n)-1, "vfIndex"))
}

// vfContains(s, sub): strings.Contains as one term (no fork).
func vfContains(fr *frame, args []value) value {
	return containsImpl(fr, args) // (the harness' own text tests do not switch URL text structure on)
}

func vfAllowPanic(fr *frame, args []value) value {
	fr.i.pc.allowPanic = args[0].(bool)
	return nil
}

func vfNote(fr *frame, args []value) value {
	fr.i.pc.note(argString(args[0], "note"))
	return nil
}

// vfParam(name, default): harness parameter supplied on the command line
// (bounds of the tier); also used to set budgets: "faults".
func vfParam(fr *frame, args []value) value {
	name := argString(args[0], "name")
	def := int(asInt64(args[1]))
	v := def
	if x, ok := fr.i.pc.run.opts.Param[name]; ok {
		v = x
	}
	if name == "faults" {
		fr.i.pc.budgets["faults"] = v
	}
	return v
}

func vfSymbolic(fr *frame, args []value) value {
	return hasSymDeep(args[0].(iface).v)
}

func vfLog(fr *frame, args []value) value {
	if fr.i.pc.run.opts.Single || fr.i.pc.run.opts.Decisions != nil {
		var parts []string
		for _, a := range args[0].([]value) {
			parts = append(parts, renderTree(a))
		}
		fmt.Println("vfLog:", strings.Join(parts, " "))
	}
	return nil
}


// ---------------------------------------------------------------------
// JSON byte handles

type blob struct {
	tree    value // iface holding the JSON tree (deep snapshot); nil if garbled
	garbled bool
	render  string
}

func deepCopy(v value) value {
	switch x := v.(type) {
	case *amap:
		if x == nil {
			return x
		}
		n := &amap{keyType: x.keyType, fast: map[value]int{}}
		for i, k := range x.keys {
			if x.dead[i] {
				continue
			}
			n.keys = append(n.keys, k)
			n.vals = append(n.vals, deepCopy(x.vals[i]))
			n.dead = append(n.dead, false)
			n.live++
			if isBasicKey(k) {
				n.fast[k] = len(n.keys) - 1
			} else if hasSymDeep(k) {
				n.nsym++
			}
		}
		return n
	case []value:
		if x == nil {
			return x
		}
		n := make([]value, len(x))
		for i := range x {
			n[i] = deepCopy(x[i])
		}
		return n
	case iface:
		return iface{t: x.t, v: deepCopy(x.v)}
	case structure:
		n := make(structure, len(x))
		for i := range x {
			n[i] = deepCopy(x[i])
		}
		return n
	case array:
		n := make(array, len(x))
		for i := range x {
			n[i] = deepCopy(x[i])
		}
		return n
	}
	return v
}

// renderTree prints a canonical text of a JSON-like tree; symbolic leaves
// print as their SMT term.
func renderTree(v value) string {
	var b strings.Builder
	var rec func(v value)
	rec = func(v value) {
		switch x := v.(type) {
		case iface:
			if x.t == nil {
				b.WriteString("null")
				return
			}
			rec(x.v)
		case *amap:
			if x == nil {
				b.WriteString("null")
				return
			}
			type kv struct {
				k string
				v value
			}
			var kvs []kv
			for i, k := range x.keys {
				if x.dead[i] {
					continue
				}
				kvs = append(kvs, kv{renderTree(k), x.vals[i]})
			}
			sort.Slice(kvs, func(i, j int) bool { return kvs[i].k < kvs[j].k })
			b.WriteByte('{')
			for i, e := range kvs {
				if i > 0 {
					b.WriteByte(',')
				}
				b.WriteString(e.k)
				b.WriteByte(':')
				rec(e.v)
			}
			b.WriteByte('}')
		case []value:
			b.WriteByte('[')
			for i, e := range x {
				if i > 0 {
					b.WriteByte(',')
				}
				rec(e)
			}
			b.WriteByte(']')
		case *sym:
			b.WriteString("‹" + x.e + "›")
		case string:
			b.WriteString(fmt.Sprintf("%q", x))
		case *value:
			if x == nil {
				b.WriteString("null")
			} else {
				b.WriteString("&")
				rec(*x)
			}
		case structure:
			b.WriteByte('<')
			for i, e := range x {
				if i > 0 {
					b.WriteByte(' ')
				}
				rec(e)
			}
			b.WriteByte('>')
		default:
			b.WriteString(toString(v))
		}
	}
	rec(v)
	return b.String()
}

func (i *interpreter) byteSliceOfBlob(bl *blob) value {
	return []value{bl}
}

func asBlob(v value) *blob {
	s, ok := v.([]value)
	if !ok || len(s) != 1 {
		return nil
	}
	b, _ := s[0].(*blob)
	return b
}

// vfMarshal(v interface{}) []byte : the bytes of JSON value v (opaque handle).
func vfMarshal(fr *frame, args []value) value {
	t := deepCopy(args[0])
	return []value{&blob{tree: t, render: renderTree(t)}}
}

// vfGarbled() []byte : bytes that are not JSON.
func vfGarbled(fr *frame, args []value) value {
	return []value{&blob{garbled: true, render: "<garbled>"}}
}

// vfTree(b []byte) interface{} : decode a payload back into a JSON tree
// (nil interface when the bytes are not a handle / garbled).
func vfTree(fr *frame, args []value) value {
	bl := asBlob(args[0])
	if bl == nil || bl.garbled {
		return iface{}
	}
	return deepCopy(bl.tree)
}

// vfDigest(b []byte) string : "SHA-256=" digest text of exactly these bytes.
func vfDigest(fr *frame, args []value) value {
	bl := asBlob(args[0])
	if bl == nil {
		panic(engineErr("vfDigest of non-handle bytes"))
	}
	return "b64(sha256(" + bl.render + "))"
}

// vfSameBytes(a, b []byte) bool : the two byte slices are the very same payload (handle identity
// in the engine, content equality natively).
func vfSameBytes(fr *frame, args []value) value {
	a, b := asBlob(args[0]), asBlob(args[1])
	if a == nil || b == nil {
		la, _ := args[0].([]value)
		lb, _ := args[1].([]value)
		return len(la) == 0 && len(lb) == 0
	}
	return a == b
}

// vfCount(s string, list []string) int : how many elements equal s, as ONE term.
func vfCount(fr *frame, args []value) value {
	list, _ := args[1].([]value)
	n := 0
	var parts []string
	for _, e := range list {
		switch r := symEq(types.Typ[types.String], args[0], e).(type) {
		case bool:
			if r {
				n++
			}
		case *sym:
			parts = append(parts, "(ite "+r.e+" "+bvConst(1, 64)+" "+bvConst(0, 64)+")")
		}
	}
	if len(parts) == 0 {
		return n
	}
	parts = append(parts, bvConst(uint64(n), 64))
	return &sym{s: sBV, w: 64, e: "(bvadd " + strings.Join(parts, " ") + ")"}
}
