// symgo: symbolic executor for Go SSA (see /verif/DESIGN.md).
//
//	symgo run -repo /repo -pkg ./pub -overlay /verif/harness/pub -harness VfC09_x[,..]
//	      [-param k=v,..] [-workers N] [-out res.json] [-decisions 0,1,..] [-trace]
package main

import (
	"runtime/debug"
	"runtime/pprof"
	"encoding/json"
	"flag"
	"fmt"
	"os"
	"path/filepath"
	"sort"
	"strconv"
	"strings"
	"time"

	"symgo/interp"
)

type harnessOut struct {
	Harness      string              `json:"harness"`
	Paths        int                 `json:"paths"`
	PathsOK      int                 `json:"paths_ok"`
	Pruned       int                 `json:"pruned_by_assume"`
	Infeasible   int                 `json:"infeasible"`
	PanicPaths   int                 `json:"panic_paths"`
	Violations   []*interp.Violation `json:"violations"`
	Inconclusive map[string]int      `json:"inconclusive"`
	Covers       map[string]int      `json:"covers"`
	Notes        map[string]int      `json:"notes"`
	Touched      []string            `json:"functions_encoded"`
	Instrs       int64               `json:"instructions"`
	FeasChecks   int                 `json:"feasibility_queries"`
	AssertChecks int                 `json:"assertion_queries"`
	SolverCalls  int                 `json:"solver_calls"`
	SolverWallS  float64             `json:"solver_wall_s"`
	WallS        float64             `json:"wall_s"`
	MaxDepth     int                 `json:"max_decisions_on_a_path"`
	Samples      []interp.PathSample `json:"samples"`
	Exhausted    bool                `json:"exhausted"`
	Params       map[string]int      `json:"params"`
}

func main() {
	if len(os.Args) < 2 || os.Args[1] != "run" {
		fmt.Fprintln(os.Stderr, "usage: symgo run ...")
		os.Exit(2)
	}
	fs := flag.NewFlagSet("run", flag.ExitOnError)
	repo := fs.String("repo", "/repo", "module directory")
	module := fs.String("module", "github.com/go-fed/activity", "module path of target packages")
	pkg := fs.String("pkg", "./pub", "package pattern (harness package)")
	overlayDirs := fs.String("overlay", "", "comma separated directories whose *.go files are overlaid into the package directory")
	harnesses := fs.String("harness", "", "comma separated harness function names")
	params := fs.String("param", "", "k=v,k=v harness parameters")
	workers := fs.Int("workers", 0, "workers (default NumCPU)")
	out := fs.String("out", "", "result json")
	decisions := fs.String("decisions", "", "run exactly this decision sequence (debug)")
	single := fs.Bool("single", false, "run only the first path (debug)")
	trace := fs.Bool("trace", false, "trace instructions")
	logdir := fs.String("logdir", "", "solver logs")
	maxPaths := fs.Int("maxpaths", 0, "path budget")
	timeout := fs.Duration("timeout", 0, "wall budget for all harnesses of this invocation together")
	tlimit := fs.Int("tlimit", 20000, "solver time limit per query (ms)")
	instrBudget := fs.Int64("instrs", 0, "instruction budget per path")
	debug.SetGCPercent(400)
	debug.SetMemoryLimit(24 << 30)
	cpuprof := fs.String("cpuprofile", "", "write cpu profile")
	fs.Parse(os.Args[2:])
	if *cpuprof != "" {
		f, _ := os.Create(*cpuprof)
		pprof.StartCPUProfile(f)
		defer pprof.StopCPUProfile()
	}

	overlay := map[string][]byte{}
	pkgDir := filepath.Join(*repo, strings.TrimPrefix(*pkg, "./"))
	for _, d := range strings.Split(*overlayDirs, ",") {
		if d == "" {
			continue
		}
		files, _ := filepath.Glob(filepath.Join(d, "*.go"))
		for _, f := range files {
			if strings.HasSuffix(f, "_test.go") {
				continue
			}
			b, err := os.ReadFile(f)
			if err != nil {
				fatal(err)
			}
			overlay[filepath.Join(pkgDir, filepath.Base(f))] = b
		}
	}
	pm := map[string]int{}
	for _, kv := range strings.Split(*params, ",") {
		if kv == "" {
			continue
		}
		p := strings.SplitN(kv, "=", 2)
		v, err := strconv.Atoi(p[1])
		if err != nil {
			fatal(err)
		}
		pm[p[0]] = v
	}
	ld, err := interp.Load(interp.LoadOptions{Dir: *repo, Patterns: []string{*pkg}, Overlay: overlay, Tags: "verif", Module: *module})
	if err != nil {
		fatal(err)
	}
	fmt.Fprintf(os.Stderr, "loaded %s in %.1fs (%d target functions)\n", *pkg, ld.LoadWall.Seconds(), ld.NumFuncs)
	var outs []harnessOut
	deadline := time.Now().Add(*timeout)
	for _, h := range strings.Split(*harnesses, ",") {
		if h == "" {
			continue
		}
		left := *timeout
		if left > 0 {
			// one budget for the whole invocation: a harness that cannot finish is reported
			// inconclusive, it does not get a fresh budget of its own
			if left = time.Until(deadline); left < 2*time.Second {
				left = 2 * time.Second
			}
		}
		opts := interp.RunOptions{Workers: *workers, Trace: *trace, LogDir: *logdir, MaxPaths: *maxPaths, Timeout: left,
			SolverTimeoutMs: *tlimit, InstrBudget: *instrBudget, Param: pm, Single: *single}
		if *decisions != "" {
			opts.Decisions = []int32{}
			for _, d := range strings.Split(*decisions, ",") {
				if d == "" {
					continue
				}
				v, _ := strconv.Atoi(d)
				opts.Decisions = append(opts.Decisions, int32(v))
			}
		}
		t0 := time.Now()
		res, err := ld.RunHarness(h, opts)
		if err != nil {
			fatal(err)
		}
		ho := harnessOut{Harness: h, Paths: res.Paths, PathsOK: res.PathsOK, Pruned: res.Pruned, Infeasible: res.Infeasible,
			PanicPaths: res.PanicPaths, Violations: res.Violations, Inconclusive: res.Inconclusive, Covers: res.Covers, Notes: res.Notes,
			Instrs: res.Instrs, FeasChecks: res.FeasChecks, AssertChecks: res.AssertChecks, SolverCalls: res.SolverCalls,
			SolverWallS: res.SolverWall.Seconds(), WallS: time.Since(t0).Seconds(), MaxDepth: res.MaxDepth, Samples: res.Samples,
			Exhausted: res.Exhausted, Params: pm}
		for f := range res.Touched {
			ho.Touched = append(ho.Touched, f)
		}
		sort.Strings(ho.Touched)
		if ho.Violations == nil {
			ho.Violations = []*interp.Violation{}
		}
		outs = append(outs, ho)
		fmt.Fprintf(os.Stderr, "%s: paths=%d ok=%d pruned=%d infeasible=%d panics=%d violations=%d inconclusive=%d feas_q=%d assert_q=%d solver=%.1fs wall=%.1fs instrs=%d exhausted=%v\n",
			h, res.Paths, res.PathsOK, res.Pruned, res.Infeasible, res.PanicPaths, len(res.Violations), len(res.Inconclusive),
			res.FeasChecks, res.AssertChecks, res.SolverWall.Seconds(), time.Since(t0).Seconds(), res.Instrs, res.Exhausted)
		for m, n := range res.Inconclusive {
			fmt.Fprintf(os.Stderr, "  INCONCLUSIVE x%d: %s\n", n, m)
		}
		seen := map[string]int{}
		for _, v := range res.Violations {
			k := v.Kind + "|" + v.Label + "|" + v.Site
			seen[k]++
			if seen[k] == 1 {
				fmt.Fprintf(os.Stderr, "  CANDIDATE %s label=%s site=%s msg=%s decisions=%v\n", v.Kind, v.Label, v.Site, v.Msg, v.Decisions)
			}
		}
	}
	if *out != "" {
		b, _ := json.MarshalIndent(outs, "", " ")
		if err := os.WriteFile(*out, b, 0o644); err != nil {
			fatal(err)
		}
	}
}

func fatal(err error) {
	fmt.Fprintln(os.Stderr, "symgo:", err)
	os.Exit(3)
}
