#!/usr/bin/env python3
"""Independent ontology oracle: computed from /repo/astool/*.jsonld only (never from astool's Go code
or from the generated streams package).

Output (JSON on stdout or via load()):
  types:  name -> {vocab, parents, ancestors, descendants, disjoint_declared, disjoint, typeless, props}
  props:  name -> {vocab, functional, natural_language_map, domain, without, range_types, range_literals}
Rules (from the property statements C12/C13):
  ancestors   = transitive closure of subClassOf (proper)
  descendants = converse
  disjoint(A) = { B | exists A' in anc*(A), B' in anc*(B): A' declared disjointWith B' or B' declared disjointWith A' }
  props(T)    = { p | domain(p) ∩ anc*(T) != {} } - { p | without(p) ∩ anc*(T) != {} }
  range*(p)   = declared range types plus all their descendants
"""
import json, sys, os

VOCABS = [("activitystreams.jsonld", "ActivityStreams"), ("security-v1.jsonld", "W3IDSecurityV1"),
          ("toot.jsonld", "Toot"), ("forgefed.jsonld", "ForgeFed")]


def _aslist(x):
    if x is None:
        return []
    return x if isinstance(x, list) else [x]


def _walk(d, out):
    if isinstance(d, dict):
        ts = _aslist(d.get("type"))
        if "owl:Class" in ts and "id" in d:
            out.append(("C", d))
        elif ("rdf:Property" in ts or "owl:FunctionalProperty" in ts) and "id" in d:
            out.append(("P", d))
        else:
            for k, v in d.items():
                if k not in ("example", "@context"):
                    _walk(v, out)
    elif isinstance(d, list):
        for x in d:
            _walk(x, out)


def _local(name):
    # "as:Object" -> "Object"; "Object" -> "Object"
    if name is None:
        return None
    return name.split(":")[-1]


def _refs(node):
    """names referenced by a subClassOf/domain/range/disjointWith node"""
    res = []
    for n in _aslist(node):
        if isinstance(n, str):
            res.append(_local(n))
            continue
        if not isinstance(n, dict):
            continue
        if "unionOf" in n:
            res += _refs(n["unionOf"])
        elif "name" in n:
            res.append(_local(n["name"]))
    return res


def load(astool_dir="/repo/astool"):
    types, props = {}, {}
    for fn, vocab in VOCABS:
        d = json.load(open(os.path.join(astool_dir, fn)))
        out = []
        _walk({k: v for k, v in d.items() if k != "@context"}, out)
        for kind, x in out:
            name = x["name"]
            if kind == "C":
                types[name] = {"vocab": vocab, "parents": _refs(x.get("subClassOf")),
                               "disjoint_declared": _refs(x.get("disjointWith")),
                               "typeless": bool(x.get("@wtf_typeless"))}
            else:
                ts = _aslist(x.get("type"))
                rng = _refs(x.get("range"))
                props[name] = {"vocab": vocab, "functional": "owl:FunctionalProperty" in ts,
                               "natural_language_map": "rdf:langString" in [r for r in _raw_refs(x.get("range"))],
                               "domain": _refs(x.get("domain")), "without": _refs(x.get("@wtf_without_property")),
                               "range": _raw_refs(x.get("range"))}
    names = set(types)
    for t in types.values():
        t["parents"] = [p for p in t["parents"] if p in names]
    # closures
    def anc(n, seen=None):
        seen = set() if seen is None else seen
        for p in types[n]["parents"]:
            if p not in seen:
                seen.add(p)
                anc(p, seen)
        return seen
    for n, t in types.items():
        t["ancestors"] = sorted(anc(n))
    for n, t in types.items():
        t["descendants"] = sorted(m for m in types if n in types[m]["ancestors"])
    decl = set()
    for n, t in types.items():
        for dname in t["disjoint_declared"]:
            if dname in names:
                decl.add((n, dname))
                decl.add((dname, n))
    for n, t in types.items():
        an = set(t["ancestors"]) | {n}
        dis = set()
        for m in types:
            am = set(types[m]["ancestors"]) | {m}
            if any((a, b) in decl for a in an for b in am):
                dis.add(m)
        t["disjoint"] = sorted(dis)
    for pn, p in props.items():
        rt = [_local(r) for r in p["range"] if _local(r) in names]
        full = set(rt)
        for r in rt:
            full |= set(types[r]["descendants"])
        p["range_types"] = sorted(full)
        p["range_literals"] = sorted(r for r in p["range"] if _local(r) not in names)
    for n, t in types.items():
        an = set(t["ancestors"]) | {n}
        ps = set()
        for pn, p in props.items():
            if an & set(p["domain"]) and not (an & set(p["without"])):
                ps.add(pn)
        t["props"] = sorted(ps)
    return {"types": types, "props": props}


def _raw_refs(node):
    res = []
    for n in _aslist(node):
        if isinstance(n, str):
            res.append(n)
        elif isinstance(n, dict):
            if "unionOf" in n:
                res += _raw_refs(n["unionOf"])
            elif "name" in n:
                res.append(n["name"])
    return res


if __name__ == "__main__":
    o = load(sys.argv[1] if len(sys.argv) > 1 else "/repo/astool")
    json.dump(o, sys.stdout, indent=1, sort_keys=True)
